#!/venv/bin/python
"""tools_repo_edit.py <file> <old> <new>: exact unique replacement in /repo/<file>, CRLF aware ('\\n' in args = file's newline)."""
import sys
f, old, new = sys.argv[1:4]
p = '/repo/' + f
s = open(p, newline='').read()
nl = '\r\n' if '\r\n' in s else '\n'
old = old.replace('\\n', nl); new = new.replace('\\n', nl)
assert s.count(old) == 1, ('match count', s.count(old))
open(p, 'w', newline='').write(s.replace(old, new))
print('edited', p)
