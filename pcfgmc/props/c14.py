"""C14 — skip_brute and all_lower are pure restrictions of the default run (also through save/restore)."""
import itertools
import os
from collections import Counter
from fractions import Fraction

from .. import tree
from .. import rulesets as R
from .. import session as S
from . import queue_disk as D
from .c09 import OMEN_A

ID = 'C14'
LEVEL = 'exploration'
RULE = ('bounded-exhaustive: every on-disk ruleset whose structure list has 1..3 lines drawn from a candidate set with the Markov structure at every '
        'position, absent and alone, is loaded by the real loader under all 4 flag combinations; the loaded grammar is compared with the reference reading and '
        'the real PcfgQueue stream under each flag with the default stream (non-M subsequence, order modulo ties, probabilities x 1/(1-P(M)); C variables '
        'collapsed to all-L at probability 1); session layer: run A under flags f quit at every guess, run B "--load" with no flags / no rule name must equal '
        'run B with the flags repeated and with every other flag set, and run B must continue the flagged stream (only its lines; A and B together all of them); non-trivial = ruleset/flag pair where the flag changes the stream')
ASSUMPTIONS = ['order is compared modulo permutation among pre-terminals whose default probabilities are equal within float slack (DESIGN 4.3)',
               'P(Markov)=1 with skip_brute is outside the property (rescaling undefined)']
NSHARDS = 16
CANDS = ['A1', 'A1D1', 'A2A1', 'D1D1', 'Y1O1', 'M', 'A1D1A1']


def specs(tier):
    maxn = 4 if tier == 'thorough' else 3
    seen = 0
    for ti, term in enumerate(D.TERMINALS):
        for n in range(1, maxn + 1):
            for combo in itertools.permutations(CANDS, n):
                # permutations: the Markov line at every position of the list
                if n == 3 and 'M' not in combo and tier == 'quick':
                    continue
                if n == 4 and 'M' not in combo:
                    continue
                for probs in ([[.4, .3, .2, .1][:n] if n == 4 else [.5, .3, .2][:n]] + ([[.4, .4, .2, .1][:n] if n == 4 else [.4, .4, .2][:n]] if n > 1 else [])):
                    spec = dict(term)
                    spec['grammar'] = list(zip(combo, probs))
                    spec['prince'] = D.PRINCE
                    spec['omen'] = OMEN_A
                    yield spec
    # a dominant Markov structure: p / (1 - P(M)) rounds to just above 1.0 for the one remaining structure (0.1 / (1 - 0.9) = 1.0000000000000002)
    for term in D.TERMINALS[:3]:
        for st in CANDS:
            if st == 'M':
                continue
            for p, pm, m_first in ((.1, .9, False), (.2, .8, True), (.3, .7, False)):
                spec = dict(term)
                spec['grammar'] = [('M', pm), (st, p)] if m_first else [(st, p), ('M', pm)]
                spec['prince'] = D.PRINCE
                spec['omen'] = OMEN_A
                yield spec


    # a Markov line whose probability is 0.0 or below half an ulp of 1 (1 - P(M) is still exactly 1.0): the flag, not the arithmetic, decides that it goes
    for pm in (0.0, 1e-17):
        for gr in ([('A1D1', .6), ('M', pm), ('D1D1', .4)], [('M', pm), ('A1', 1.0)], [('Y1O1', .5), ('A1', .5), ('M', pm)]):
            spec = dict(D.TERMINALS[0])
            spec.update(grammar=gr, prince=D.PRINCE, omen=OMEN_A)
            yield spec
    # three, four and five alpha runs in one structure: a capitalisation transition behind every one of them
    for gr in ([('A1D1A2D1A1', .5), ('A1A2A1', .3), ('M', .2)], [('A2A1D1A1A2', .6), ('A1', .4)], [('M', .3), ('A1O1A2A1D1A1', .4), ('A1A1A1A1A1', .3)]):
        for term in D.TERMINALS[:2]:
            spec = dict(term)
            spec.update(grammar=gr, prince=D.PRINCE, omen=OMEN_A)
            yield spec
    # an OMEN model that generates capitals: --all_lower collapses the masks of the dictionary words and nothing else
    from . import c09
    for gr in ([('M', .6), ('A1', .4)], [('A1D1', .5), ('M', .3), ('D1D1', .2)]):
        spec = dict(D.TERMINALS[0])
        spec.update(grammar=gr, prince=D.PRINCE, omen=c09.OMEN_U)
        yield spec
    # lengths of two digits (A10, D12: one structure in ten of a real ruleset)
    for gr in ([('A10', .5), ('A1D12', .3), ('M', .2)], [('D12A10', .6), ('A10D1', .4)], [('M', .5), ('D12', .25), ('A10A1', .25)]):
        spec = dict(TERMINALS_LONG)
        spec.update(grammar=gr, prince=D.PRINCE, omen=OMEN_A)
        yield spec


def _long_terminals():
    t = {k: (dict(v) if isinstance(v, dict) else v) for k, v in D.TERMINALS[0].items()}
    t['A'][10] = [('abcdefghij', .7), ('klmnopqrst', .2), ('uvwxyzabcd', .1)]
    t['C'][10] = [('L' * 10, .75), ('U' + 'L' * 9, .25)]
    t['D'][12] = [('123456789012', .5), ('000000000000', .5)]
    return t


TERMINALS_LONG = _long_terminals()


def shards(tier):
    return [('load', i, NSHARDS) for i in range(NSHARDS)] + [('sess', i) for i in range(len(session_specs(tier)))]


def bounds(tier):
    return {'structure_candidates': CANDS, 'lines_per_ruleset': '1..%d, all orders' % (4 if tier == 'thorough' else 3), 'terminal_sets': len(D.TERMINALS),
            'flags': 'skip_brute x all_lower', 'session': '%d rulesets x 3 flag sets x every quit position' % len(session_specs(tier))}


def stream(PcfgQueue, g):
    q = PcfgQueue(g)
    out = []
    while True:
        it = q.next()
        if it is None:
            return out
        out.append((tuple(tuple(x) for x in it['pt']), it['prob']))
        if len(out) > 5000:
            return out


def close(a, b, n=6):
    fa, fb = Fraction(a), Fraction(b)
    return abs(fa - fb) <= max(fa, fb) * Fraction(2 * n + 2, 2 ** 53) + Fraction(n, 2 ** 1074)


def compare_loaded(g, types, base):
    for t, groups in types.items():
        got = [(x['prob'], list(x['values'])) for x in g.grammar.get(t, [])]
        if got != groups:
            return 'loaded %s = %r, reference %r' % (t, got[:4], groups[:4])
    gb = [(b['prob'], list(b['replacements'])) for b in g.base]
    if len(gb) != len(base):
        return 'loaded %d base structures %r, reference has %d %r' % (len(gb), [r for _, r in gb], len(base), [r for _, r in base])
    for (p1, r1), (p2, r2) in zip(gb, base):
        if r1 != r2 or not close(p1, p2, 2):
            return 'base structure %r prob %r, reference %r prob %r' % (r1, p1, r2, p2)
    return None


def collapse(pt):
    return tuple((t, 0) if t[0] == 'C' else (t, i) for t, i in pt)


def run_load(shard, tier, acc):
    _, si, ns = shard
    tree.use()
    G = tree.imp('lib_guesser.pcfg_grammar').PcfgGrammar
    Qc = tree.imp('lib_guesser.priority_queue').PcfgQueue
    root = tree.mkdtemp('pcfgmc-c14-')
    for idx, spec in enumerate(specs(tier)):
        if idx % ns != si:
            continue
        rdir = os.path.join(root, 'r')
        R.write_ruleset(rdir, spec)
        if idx % 2 == 1:
            # every second ruleset: the structure list without a newline behind its last line (a file that was edited by hand)
            gpath = os.path.join(rdir, 'Grammar', 'grammar.txt')
            with open(gpath, 'rb') as fh:
                raw = fh.read()
            with open(gpath, 'wb') as fh:
                fh.write(raw.rstrip(b'\r\n'))
        pm = next((p for s, p in spec['grammar'] if s == 'M'), 0.0)
        has_m = any(s == 'M' for s, _ in spec['grammar'])
        case0 = {'kind': 'load', 'spec': spec}
        streams = {}
        alive = {}
        for sb, sc in itertools.product([False, True], repeat=2):
            acc.evals += 1
            case = dict(case0, skip_brute=sb, all_lower=sc)
            try:
                g = D.load(G, rdir, sb, sc, 'Grammar')
            except Exception as e:
                acc.fail(case, 'load raised %r' % (e,), 'raise')
                continue
            types, base = R.ref_loaded(spec, sb, sc)
            msg = compare_loaded(g, types, base)
            if msg:
                sig = 'skip_brute-no-M' if (sb and not has_m and not g.base) else 'loaded-grammar'
                acc.fail(case, msg, sig)
                continue
            streams[(sb, sc)] = stream(Qc, g)
            alive[(sb, sc)] = (g, types, base)
            # guess level (one ruleset in three, and every ruleset whose OMEN model has capitals): what each pre-terminal of the flagged run writes
            # is the reference expansion under the flags; a Markov pre-terminal writes its OMEN levels whatever the flags are
            om = spec.get('omen', R.DEFAULT_OMEN)
            if idx % 3 == 0 or any(a != a.lower() for a in om['alphabet']):
                lines = []
                g.print_guess = lines.append
                for pt, _ in streams[(sb, sc)]:
                    del lines[:]
                    try:
                        g.create_guesses([list(x) for x in pt])
                    except Exception as e:
                        acc.fail(case, 'create_guesses(%r) raised %r' % (pt, e), 'raise')
                        break
                    try:
                        want = R.expand_pt(types, list(pt), omen=om)
                    except (KeyError, IndexError):
                        break       # not a pre-terminal of the reference grammar: reported by the stream comparison below
                    if Counter(lines) != Counter(want):
                        acc.fail(case, 'pre-terminal %r writes %r.. (%d strings), the ruleset under these flags gives %r.. (%d)'
                                 % (pt, sorted(lines)[:4], len(lines), sorted(want)[:4], len(want)), 'guesses')
                        break
                acc.count('preterminals_expanded_under_flags', len(streams[(sb, sc)]))
        # E-hist over loads: the grammars loaded earlier are still what they were when the later ones have been loaded under other flags
        for (sb, sc), (g, types, base) in alive.items():
            msg = compare_loaded(g, types, base)
            if msg:
                acc.fail(dict(case0, skip_brute=sb, all_lower=sc), 'after the same ruleset was loaded again under other flags, the grammar loaded earlier has changed: ' + msg, 'loaded-grammar-changed-later')
        if len(streams) < 4:
            tree.rmtree(rdir)
            continue
        dflt = streams[(False, False)]
        dprob = dict(dflt)
        if len(dprob) != len(dflt):
            # duplicate pts (cannot happen: candidate lines are distinct)
            pass
        for (sb, sc), st in streams.items():
            if not sb and not sc:
                continue
            case = dict(case0, skip_brute=sb, all_lower=sc)
            # expected multiset, expressed through the default run
            if sc:
                # collapse C choices: the all_lower stream equals the default stream restricted to C index 0
                # with the C factors replaced by 1.0
                types_d, _ = R.ref_loaded(spec, False, False)
                exp = {}
                for pt, p in dflt:
                    if sb and pt[0][0] == 'M':
                        continue
                    if any(t[0] == 'C' and i != 0 for t, i in pt):
                        continue
                    f = Fraction(p)
                    for t, i in pt:
                        if t[0] == 'C':
                            f = f / Fraction(types_d[t][0][0])
                    exp[pt] = f
            else:
                exp = {pt: Fraction(p) for pt, p in dflt if not (sb and pt[0][0] == 'M')}
            if sb:
                exp = {pt: f / (1 - Fraction(pm)) for pt, f in exp.items()}
            got = Counter(pt for pt, _ in st)
            if got != Counter(exp.keys()):
                miss = [pt for pt in exp if pt not in got][:2]
                extra = [pt for pt in got if pt not in exp][:2]
                acc.fail(case, 'stream under flags differs from the restricted default stream: missing %r extra %r (%d vs %d pre-terminals)'
                         % (miss, extra, len(st), len(exp)), 'stream-set')
                continue
            changed = (len(st) != len(dflt)) or sc
            if changed:
                acc.nontrivial += 1
            bad = None
            for pt, p in st:
                if not close(p, exp[pt], 8):
                    bad = 'probability of %r under flags is %r, expected %r (= default rescaled)' % (pt, p, float(exp[pt]))
                    break
            if bad:
                acc.fail(case, bad, 'stream-prob')
                continue
            # order modulo ties: expected probabilities along the flagged stream must be non-increasing within slack
            for (pt1, _), (pt2, _) in zip(st, st[1:]):
                e1, e2 = exp[pt1], exp[pt2]
                if e2 > e1 and not close(e1, e2, 8):
                    acc.fail(case, 'order under flags: %r (expected prob %r) emitted before %r (%r)' % (pt1, float(e1), pt2, float(e2)), 'stream-order')
                    break
        if idx % 53 == si:
            acc.sample({'grammar': spec['grammar'], 'default_len': len(dflt),
                        'skip_brute_len': len(streams[(True, False)]), 'all_lower_len': len(streams[(False, True)])}, cap=1)
        tree.rmtree(rdir)
    tree.rmtree(root)


def session_specs(tier):
    t0, t1 = D.TERMINALS[0], D.TERMINALS[1]
    cands = [
        (t0, [('A1D1', .5), ('M', .3), ('D2', .2)]),
        (t1, [('A2A1', .6), ('D1D1', .4)]),
        (t0, [('M', .5), ('A2', .5)]),
    ]
    if tier == 'thorough':
        cands += [(t1, [('A1O1A2', .5), ('M', .3), ('Y1O1', .2)]), (t0, [('A1', .5), ('D1D1', .5)])]
    out = []
    for term, gr in cands:
        spec = dict(term)
        spec.update(grammar=gr, prince=D.PRINCE, omen=OMEN_A)
        out.append(spec)
    return out


def run_sess(shard, tier, acc):
    _, i = shard
    spec = session_specs(tier)[i]
    td = tree.scratch_tree()
    # the rule is deliberately NOT called 'Default': a resumed run without -r must take the name from the .sav
    R.write_ruleset(os.path.join(td, 'Rules', 'v'), spec)
    for flags in ([], ['--skip_brute'], ['--all_lower'], ['--skip_brute', '--all_lower']):
        S.clear_session(td)
        full = S.run_guesser(td, ['-r', 'v'] + flags)
        acc.evals += 1
        total = len(full.stdout)
        # what the program writes under the flags is the language of the ruleset under the flags, line for line (nothing else on standard output)
        types_f, base_f = R.ref_loaded(spec, '--skip_brute' in flags, '--all_lower' in flags)
        lang_f = Counter()
        for bp, reps_ in base_f:
            for ix in itertools.product(*[range(len(types_f[r])) for r in reps_]):
                lang_f.update(R.expand_pt(types_f, list(zip(reps_, ix)), omen=spec.get('omen', R.DEFAULT_OMEN)))
        if not full.exc and Counter(full.stdout) != lang_f:
            extra = list((Counter(full.stdout) - lang_f).elements())[:3]
            missing = list((lang_f - Counter(full.stdout)).elements())[:3]
            acc.fail({'kind': 'sess', 'spec_index': i, 'spec': spec, 'flags': flags, 'j': -1},
                     'pcfg_guesser %s wrote %d lines, the ruleset under these flags has %d guesses: lines that are not (or too often) guesses %r, guesses not written %r'
                     % (' '.join(flags), len(full.stdout), sum(lang_f.values()), extra, missing), 'flagged-stream-not-the-language')
        seen = set()
        for j in range(0, total):
            S.clear_session(td)
            A = S.run_guesser(td, ['-r', 'v'] + flags, quit_after=j)
            acc.evals += 1
            if A.exc or not A.fired or A.sav is None:
                continue
            key = (tuple(sorted(A.sav.items())), A.omn)
            if key in seen:
                continue
            seen.add(key)
            Bf = S.run_guesser(td, ['-r', 'v', '--load'] + flags)
            S.set_session(td, A.sav_raw, A.omn)
            Bn = S.run_guesser(td, ['--load'])
            acc.evals += 2
            # flags given together with --load that differ from the saved ones: the saved ones win
            for other in ([], ['--skip_brute'], ['--all_lower'], ['--skip_brute', '--all_lower']):
                if other == flags:
                    continue
                S.set_session(td, A.sav_raw, A.omn)
                Bo = S.run_guesser(td, ['-r', 'v', '--load'] + other)
                acc.evals += 1
                if Bo.exc:
                    acc.fail({'kind': 'sess', 'spec_index': i, 'spec': spec, 'flags': flags, 'j': j, 'other': other}, '--load %s raised %s' % (' '.join(other), Bo.exc.strip().splitlines()[-1]), 'raise')
                elif Bo.stdout != Bf.stdout:
                    acc.fail({'kind': 'sess', 'spec_index': i, 'spec': spec, 'flags': flags, 'j': j, 'other': other},
                             'session saved with [%s] (quit at guess %d) and resumed with "--load %s" emitted %d lines %r; resumed with the saved flags %d lines %r'
                             % (' '.join(flags), j, ' '.join(other), len(Bo.stdout), Bo.stdout[:3], len(Bf.stdout), Bf.stdout[:3]), 'load-flags-not-from-save')
            acc.nontrivial += 1
            case = {'kind': 'sess', 'spec_index': i, 'spec': spec, 'flags': flags, 'j': j}
            # the resumed stream continues the FLAGGED stream: only its lines, and together with run A all of them
            if not Bf.exc:
                alien = [l for l in Bf.stdout if l not in set(full.stdout)]
                lost = [l for l in full.stdout if l not in set(A.stdout) and l not in set(Bf.stdout)]
                if alien or lost:
                    acc.fail(case, 'run A used [%s] and was quit at guess %d; the resumed run is not a continuation of that stream: lines outside it %r, lines of it that neither run emitted %r'
                             % (' '.join(flags), j, alien[:4], lost[:4]), 'resumed-stream-not-the-flagged-one')
            if Bn.exc:
                acc.fail(case, '--load without flags raised %s' % Bn.exc.strip().splitlines()[-1], 'raise')
            elif Bn.stdout != Bf.stdout:
                acc.fail(case, 'run A used %s and was quit at guess %d; "--load" without flags emitted %d lines %r, with the flags repeated %d lines %r'
                         % (' '.join(flags), j, len(Bn.stdout), Bn.stdout[:4], len(Bf.stdout), Bf.stdout[:4]), 'load-ignores-saved-flags')
        acc.sample({'kind': 'session', 'grammar': spec['grammar'], 'flags': flags, 'saved_states': len(seen)}, cap=2)
    tree.rmtree(td)


def run_shard(shard, tier, acc):
    if shard[0] == 'load':
        run_load(shard, tier, acc)
    else:
        run_sess(shard, tier, acc)


def replay(case):
    from ..runner import Acc
    acc = Acc()
    if case['kind'] == 'sess':
        run_sess(('sess', case['spec_index']), 'thorough', acc)
        fs = [f for f in acc.failures if f['case']['flags'] == case['flags'] and f['case']['j'] == case['j'] and f['case'].get('other') == case.get('other')]
        return fs[0]['msg'] if fs else None
    # loader layer: rerun the single spec
    global specs
    spec = D.fix_spec(case['spec'])
    orig = specs
    specs = lambda tier: [spec]
    try:
        run_load(('load', 0, 1), 'thorough', acc)
    finally:
        specs = orig
    fs = [f for f in acc.failures if f['case'].get('skip_brute') == case.get('skip_brute') and f['case'].get('all_lower') == case.get('all_lower')]
    return fs[0]['msg'] if fs else None
