"""C02 — every pre-terminal exactly once."""
from . import queue_common as Q

ID = 'C02'
LEVEL = 'model_checking'
ORACLES = ('C02',)
RULE = ('every ruleset of the finite families in coverage.bounds is run to exhaustion through the real '
        'PcfgQueue; a state is (emitted multiset, heap content) after a pop, a transition is one next(); after every pop '
        'emitted+queued <= multiplicity for every vector, at exhaustion emitted == full Cartesian grid per structure line; '
        'non-trivial = ruleset with an exact tie between co-parents of some node, or a repeated variable type')
ASSUMPTIONS = [
    'in-memory grammars are deep copies of a PcfgGrammar really constructed from a minimal on-disk ruleset, with .grammar/.base replaced: they behave like loaded ones for PcfgQueue (the on-disk layer goes through the real loader)',
    'heap inspection reads PcfgQueue.p_queue when present; otherwise only the emitted multiset is checked',
]
shards = Q.shards
bounds = Q.bounds


def run_shard(shard, tier, acc):
    Q.run_shard(shard, tier, acc, 'C02')


def replay(case):
    return Q.replay(case, 'C02')
