"""C02 — every pre-terminal exactly once."""
from . import queue_common as Q

ID = 'C02'
LEVEL = 'model_checking'
ORACLES = ('C02',)
RULE = ('every ruleset of the finite families in coverage.bounds is run to exhaustion through the real '
        'PcfgQueue; a state is (emitted multiset, heap content) after a pop, a transition is one next(); after every pop '
        'emitted+queued <= multiplicity for every vector, at exhaustion emitted == full Cartesian grid per structure line; '
        'non-trivial = ruleset with an exact tie between co-parents of some node, or a repeated variable type')
ASSUMPTIONS = [
    'in-memory grammars are deep copies of a PcfgGrammar really constructed from a minimal on-disk ruleset, with .grammar/.base replaced: they behave like loaded ones for PcfgQueue (the on-disk layer goes through the real loader)',
    'heap inspection reads PcfgQueue.p_queue when present; otherwise only the emitted multiset is checked',
]
DISK_SHARDS = 8


def shards(tier):
    return Q.shards(tier) + [('disk-guesses', i, DISK_SHARDS) for i in range(DISK_SHARDS)]


def bounds(tier):
    b = dict(Q.bounds(tier))
    b['disk_layer'] = 'on-disk rulesets (repeated alpha variables of one length with several masks, three alpha runs, Markov lines): real loader, real queue, real create_guesses to exhaustion'
    return b


def disk_specs(tier):
    from . import queue_disk as D
    from .. import rulesets as R
    t0 = dict(D.TERMINALS[0])
    # same-length alpha variables repeated in one structure, each with more than one mask
    t0.update(A={1: [('a', .6), ('b', .4)], 2: [('ab', .7), ('cd', .3)]}, C={1: [('L', .6), ('U', .4)], 2: [('LL', .5), ('UL', .3), ('LU', .2)]})
    out = []
    for gr in ([('A2D1A2', .5), ('A2D1', .3), ('D1A1', .2)], [('A1A1A1', .6), ('A2A2', .4)], [('A1D1A1', .5), ('M', .3), ('A2O1A2D1A2', .2)],
               [('A1A2A1A2', 1.0)], [('D1D1', .5), ('O1D1O1', .3), ('Y1Y1', .2)], [('M', 1.0)], [('A2A1A2', .5), ('A1A2A1', .5)],
               # one structure next to a dominant Markov line: under --skip_brute its probability is rescaled to just above 1.0 (0.2 / (1 - 0.8))
               [('D2', .2), ('M', .8)], [('M', .9), ('D2', .1)], [('K4', .3), ('M', .7)]):
        spec = dict(t0)
        spec.update(grammar=gr, prince=D.PRINCE)
        out.append(spec)
    # letters whose upper case is two characters next to the words their damaged forms would collide with
    t1 = dict(t0)
    t1.update(A={2: [('a\u00df', .4), ('\u00dfa', .3), ('as', .2), ('sa', .1)], 3: [('ma\u00df', .5), ('mas', .3), ('\u01f0ab', .2)]},
              C={2: [('LL', .4), ('UU', .3), ('LU', .2), ('UL', .1)], 3: [('LLL', .4), ('LLU', .3), ('UUU', .2), ('ULL', .1)]})
    for gr in ([('A2D1', .6), ('A3', .4)], [('A3A2', .5), ('D1A3O1', .5)]):
        spec = dict(t1)
        spec.update(grammar=gr, prince=D.PRINCE)
        out.append(spec)
    # words without case (or with a caseless letter where two equally probable masks differ): two masks, two derivations, the same string twice
    t2 = dict(t0)
    t2.update(A={2: [('\u4e2d\u56fd', .5), ('ab', .3), ('a\u4e2d', .2)], 1: [('\u00ba', .6), ('b', .4)]},
              C={2: [('LL', .4), ('UL', .3), ('LU', .3)], 1: [('L', .5), ('U', .5)]})
    for gr in ([('A2', .6), ('A1D1', .4)], [('D1A2O1', .5), ('A1A2', .5)]):
        spec = dict(t2)
        spec.update(grammar=gr, prince=D.PRINCE)
        out.append(spec)
    # values that begin with U+FEFF as the first line of their file (a training list saved with a byte-order mark leaves such a symbol behind)
    t3 = dict(t0)
    t3.update(O={1: [('\ufeff', .6), ('!', .4)], 2: [('\ufeff!', .5), ('!\ufeff', .5)]}, A={2: [('\ufeffa', .7), ('ab', .3)], 1: [('a', 1.0)]},
              C={2: [('LL', .6), ('LU', .4)], 1: [('L', 1.0)]})
    for gr in ([('O1A2D1', .6), ('A2O2', .4)],):
        spec = dict(t3)
        spec.update(grammar=gr, prince=D.PRINCE)
        out.append(spec)
    step = 29 if tier == 'quick' else 5
    out += list(D.specs(tier))[::step]
    return out


def run_disk(shard, tier, acc):
    """The statement at guess level: the multiset of strings written for the whole run = the language of the on-disk ruleset, one per derivation."""
    from collections import Counter
    from .. import tree, rulesets as R
    from . import queue_disk as D
    _, si, ns = shard
    tree.use()
    G = tree.imp('lib_guesser.pcfg_grammar').PcfgGrammar
    Qc = tree.imp('lib_guesser.priority_queue').PcfgQueue
    root = tree.mkdtemp('pcfgmc-c02d-')
    for idx, spec in enumerate(disk_specs(tier)):
        if idx % ns != si:
            continue
        for sb in ((False, True) if any(st == 'M' for st, _ in spec['grammar']) and len(spec['grammar']) > 1 else (False,)):
            # (with a Markov line also under --skip_brute: the rescaled probabilities of what is left must not cost a pre-terminal)
            acc.evals += 1
            R.write_ruleset(root, spec)
            types, base = R.ref_loaded(spec, sb, False)
            om = spec.get('omen', R.DEFAULT_OMEN)
            want = Counter()
            for bp, reps in base:
                import itertools
                for ix in itertools.product(*[range(len(types[r])) for r in reps]):
                    want.update(R.expand_pt(types, list(zip(reps, ix)), omen=om))
            case = {'kind': 'disk-guesses', 'spec': spec, 'skip_brute': sb}
            try:
                g = D.load(G, root, sb, False, 'Grammar')
                q = Qc(g)
                lines = []
                g.print_guess = lines.append
                n = 0
                while True:
                    it = q.next()
                    if it is None:
                        break
                    n += 1
                    acc.transitions += 1
                    if n > 20000:
                        break
                    g.create_guesses(it['pt'])
            except Exception as e:
                acc.fail(case, 'raise: running the on-disk ruleset %r to exhaustion raised %r' % (spec['grammar'], e), sig='C02:raise', oracle='C02')
                tree.rmtree(root)
                root = tree.mkdtemp('pcfgmc-c02d-')
                continue
            got = Counter(lines)
            if any(v > 1 for v in want.values()) or len(base) > 1 or any(len(set(r)) < len(r) for _, r in base):
                acc.nontrivial += 1
            if got != want:
                missing = list((want - got).elements())[:4]
                extra = list((got - want).elements())[:4]
                acc.fail(case, 'at: on-disk ruleset %r: the strings written over the whole run are not the language of the ruleset: %d derivations never written (e.g. %r), %d written too often or foreign (e.g. %r)'
                         % (spec['grammar'], sum((want - got).values()), missing, sum((got - want).values()), extra), sig='C02:disk-guesses', oracle='C02')
            import shutil
            shutil.rmtree(root, ignore_errors=True)
            root = tree.mkdtemp('pcfgmc-c02d-')
    tree.rmtree(root)


def run_shard(shard, tier, acc):
    if shard[0] == 'disk-guesses':
        return run_disk(shard, tier, acc)
    Q.run_shard(shard, tier, acc, 'C02')


def replay(case):
    if case.get('kind') == 'disk-guesses':
        from ..runner import Acc
        acc = Acc()
        for i in range(DISK_SHARDS):
            run_disk(('disk-guesses', i, DISK_SHARDS), 'thorough' if case.get('tier') == 'thorough' else 'quick', acc)
        fs = [f for f in acc.failures if f['case'].get('spec', {}).get('grammar') == [tuple(x) for x in case['spec']['grammar']] or f['case'].get('spec', {}).get('grammar') == case['spec']['grammar']]
        return fs[0]['msg'] if fs else None
    return Q.replay(case, 'C02')
