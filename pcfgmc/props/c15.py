"""C15 — a Markov level interrupted mid-way resumes at the very next guess; later cycles do not replay it.

E-hist: breadth-first search over saved session states reached through real pcfg_guesser.main()
runs in a scratch tree.  State = canonical .sav (guessing_info + rule_info; session statistics and
timestamps dropped: they only feed the stderr status report) + .omn bytes.  Operations from a state:
resume and quit after the j-th printed guess, for every j; depth 3.
"""
import itertools
import os
from collections import Counter

from .. import tree
from .. import rulesets as R
from .. import session as S
from . import queue_disk as D

ID = 'C15'
LEVEL = 'model_checking'
RULE = ('explicit-state BFS over saved session states (canonical .sav + .omn) produced by the real code; from every state the session is resumed and quit after '
        'every guess position j (transitions); every resumed run must first emit exactly the not-yet-emitted strings of the interrupted Markov level and then a stream '
        'that satisfies the resume oracle of C08 at line level (nothing from a pre-terminal above the saved probability, everything below exactly once); '
        'non-trivial = state saved strictly inside a Markov level')
ASSUMPTIONS = ['canonicalisation drops session_info.* (statistics/timestamps only read by the status report on stderr)',
               'OMEN alphabets are disjoint from the dictionary terminals so that every stdout line identifies its pre-terminal',
               'virtual user delivers the quit right after the j-th printed guess (other schedules: C12)']

OMEN_X = {'ngram': 2, 'alphabet': ['x', 'y'], 'ip': {'x': 0, 'y': 1}, 'ep': {},
          'cp': {'xx': 0, 'xy': 1, 'yx': 0, 'yy': 2}, 'ln': [10, 0, 1],
          'keyspace': {1: 3, 2: 3, 3: 2}}
OMEN_Y = {'ngram': 2, 'alphabet': ['x', 'y', 'z'], 'ip': {'x': 0, 'y': 1, 'z': 2}, 'ep': {},
          'cp': {'xx': 1, 'xy': 0, 'xz': 2, 'yx': 0, 'yz': 1, 'zx': 0, 'zz': 3}, 'ln': [5, 1, 0, 2],
          'keyspace': {1: 3, 2: 8}}
OMEN_Z = {'ngram': 3, 'alphabet': ['x', 'y'], 'ip': {'xx': 0, 'xy': 1, 'yx': 1, 'yy': 2}, 'ep': {},
          'cp': {'xxx': 1, 'xxy': 0, 'xyx': 0, 'xyy': 2, 'yxx': 0, 'yxy': 1, 'yyx': 0, 'yyy': 1}, 'ln': [10, 10, 0, 1, 2],
          'keyspace': {1: 5, 2: 9, 3: 12}}

# contexts with several next characters on ONE level: a quit can fall in the middle of such a group of final characters
OMEN_W = {'ngram': 2, 'alphabet': ['x', 'y', 'z'], 'ip': {'x': 0, 'y': 0, 'z': 1}, 'ep': {},
          'cp': {'xx': 0, 'xy': 0, 'xz': 0, 'yx': 1, 'yy': 1, 'zx': 0, 'zy': 0, 'zz': 2}, 'ln': [10, 0, 1],
          'keyspace': {}}


# the same strings on levels 8..12 (length costs 8 and 9): level numbers of one and of two digits
OMEN_HI = dict(OMEN_X, ln=[10, 8, 9], keyspace={8: 1, 9: 3, 10: 3, 11: 2, 12: 2}, top_level=14)


# alphabets with a blank / with characters that mean something to the .sav file's syntax: strings that begin or end with a blank, contain '%', '=', ';' or '#'
def _relabel(m, mp):
    tr = lambda k: ''.join(mp.get(c, c) for c in k)
    return dict(m, alphabet=[tr(a) for a in m['alphabet']], ip={tr(k): v for k, v in m['ip'].items()}, cp={tr(k): v for k, v in m['cp'].items()})


OMEN_BLANK = _relabel(OMEN_X, {'y': ' '})
OMEN_PCT = _relabel(OMEN_W, {'y': '%', 'z': ' '})
OMEN_SYN = _relabel(OMEN_W, {'x': '=', 'y': ';', 'z': '#'})


# three initial n-grams on one level, the middle one without any continuation (an n-gram the trainer saw only at the end of passwords): a position
# inside the level's list of initial n-grams behind it
OMEN_DEAD = {'ngram': 2, 'alphabet': ['x', 'd', 'y'], 'ip': {'x': 0, 'd': 0, 'y': 0}, 'ep': {},
             'cp': {'xx': 0, 'xy': 1, 'yx': 0, 'yy': 1}, 'ln': [10, 0, 1], 'keyspace': {1: 3, 2: 3, 3: 2}}


# an initial n-gram on level 10 (one the trainer never saw at the start of a password): positions behind it inside levels 10 and 11
OMEN_IP10 = {'ngram': 2, 'alphabet': ['x', 'y'], 'ip': {'x': 0, 'y': 10}, 'ep': {}, 'cp': {'xx': 0, 'xy': 1, 'yx': 0, 'yy': 1}, 'ln': [10, 0, 1],
             'keyspace': {1: 3, 10: 3, 11: 5}, 'top_level': 14}


def omen(m, probs):
    d = dict(m)
    d['omen_prob'] = probs
    d['keyspace'] = {L: m['keyspace'].get(L, 1) for L, _ in probs}
    return d


def specs(tier):
    t0 = D.TERMINALS[0]
    out = []

    def add(gr, om, name):
        spec = dict(t0)
        spec.update(grammar=gr, prince=D.PRINCE, omen=om, name=name)
        out.append(spec)
    add([('M', .5), ('D1', .5)], omen(OMEN_X, [(1, .5), (2, .03125)]), 'M first')
    add([('D1', .5), ('M', .5)], omen(OMEN_X, [(1, .25), (2, .125)]), 'M between dictionary pre-terminals')
    add([('D2', .75), ('M', .25)], omen(OMEN_X, [(1, .5), (2, .25), (3, .125)]), 'M last (several levels)')
    add([('M', .5), ('D1', .25)], omen(OMEN_X, [(1, .125), (2, .0625)]), 'M tied with its successor')
    add([('D1', .5), ('M', .5)], omen(OMEN_Z, [(1, .25), (2, .125)]), 'ngram3, two initial n-grams per level')
    # a level >= 2 that is NOT the last pre-terminal and contains strings whose length has level 2 (several lengths per level)
    add([('M', .6), ('D1', .4)], omen(OMEN_Z, [(1, .5), (2, .25), (3, .0625)]), 'ngram3, levels 1-3, Markov levels interleaved with dictionary pre-terminals')
    # levels of exactly equal probability share one pre-terminal (the trainer writes 0.0 for every level without a training password):
    # a quit inside the first level owes the rest of it AND the later levels of the group
    add([('M', .5), ('D1', .5)], omen(OMEN_X, [(1, .25), (2, .25), (3, .125)]), 'levels 1 and 2 tied in one pre-terminal')
    add([('D1', .5), ('M', .5)], omen(OMEN_X, [(1, .5), (2, 0.0), (3, 0.0)]), 'levels 2 and 3 share probability 0.0, last pre-terminal')
    add([('D1', .5), ('M', .5)], omen(OMEN_W, [(1, .5), (2, .25)]), 'several final characters on one level (groups of 2 and 3)')
    add([('M', .6), ('D1', .4)], omen(OMEN_W, [(1, .25), (2, .25), (3, .125), (4, .125)]), 'two tied groups: levels 1=2 and 3=4')
    add([('D1', .5), ('M', .5)], omen(OMEN_W, [(1, .5), (2, .125), (3, .125), (4, .125)]), 'levels 2=3=4 tied in one pre-terminal')
    # a tied group that mixes level numbers of one and of two digits (the zero-probability tail the trainer writes: 4, 5, 10, 11, ...)
    add([('D1', .5), ('M', .5)], omen(OMEN_HI, [(8, .25), (9, .125), (10, .125), (11, .125)]), 'levels 9=10=11 tied in one pre-terminal')
    add([('D1', .5), ('M', .5)], omen(OMEN_BLANK, [(1, .5), (2, .25), (3, .125)]), 'alphabet with a blank: strings that begin / end with blanks')
    add([('M', .6), ('D1', .4)], omen(OMEN_PCT, [(1, .25), (2, .25), (3, .125)]), "alphabet x % blank, levels 1=2 tied")
    add([('D1', .5), ('M', .5)], omen(OMEN_SYN, [(1, .5), (2, .25)]), "alphabet = ; #")
    add([('D1', .5), ('M', .5)], omen(OMEN_DEAD, [(1, .5), (2, .25)]), 'an initial n-gram without continuation between two others')
    add([('D1', .5), ('M', .5)], omen(OMEN_IP10, [(1, .5), (10, .25), (11, .125)]), 'an initial n-gram on level 10, levels 10 and 11 listed')
    if tier == 'thorough':
        add([('M', .5), ('A1D1', .5)], omen(OMEN_Y, [(1, .25), (2, .0625)]), 'ngram2 three letters')
        add([('A1', .5), ('M', .25), ('D1D1', .25)], omen(OMEN_X, [(1, .5), (2, .25), (3, .125)]), 'three structures')
        add([('M', .7), ('D1', .3)], omen(OMEN_Y, [(1, .5), (2, .25)]), 'ngram2 three letters, levels of 3 and 8 strings')
    return out


def shards(tier):
    return [('bfs', i) for i in range(len(specs(tier)))] + [('two-sessions', 0)]


def bounds(tier):
    return {'rulesets': [s['name'] for s in specs(tier)], 'depth': 'closure: at most 8 quit / resume cycles allowed, no new saved state appears after 3-4 (counter states_at_the_depth_bound_not_expanded = 0)', 'quit_positions': 'every j in 0..len(resumed stream)'}


def labelled_language(spec):
    """line -> (pt, prob) ; asserts that every line identifies its pre-terminal."""
    types, base = R.ref_loaded(spec)
    lab = {}
    pts = {}
    for bp, reps in base:
        for idx in itertools.product(*[range(len(types[r])) for r in reps]):
            pt = tuple(zip(reps, idx))
            prob = R.float_product(bp, [types[t][i][0] for t, i in pt])
            lines = R.expand_pt(types, list(pt), omen=spec['omen'])
            pts[pt] = (prob, Counter(lines))
            for l in lines:
                assert l not in lab or lab[l] == pt, 'harness: line %r is produced by two pre-terminals' % l
                lab[l] = pt
    return lab, pts


def canon_state(run):
    sav = {k: v for k, v in (run.sav or {}).items() if not k.startswith('session_info.')}
    return (tuple(sorted(sav.items())), run.omn if 'guessing_info.omen_guess_number' in sav else None)


def check_resumed(stdout, remainder, p, lab, pts, what):
    """remainder: Counter of level strings still owed; p: saved max probability."""
    msgs = []
    n = sum(remainder.values())
    head, tail = stdout[:n], stdout[n:]
    if Counter(head) != remainder:
        missing = list((remainder - Counter(head)).elements())[:4]
        extra = list((Counter(head) - remainder).elements())[:4]
        msgs.append('remainder: %s must start with the %d not-yet-emitted strings of the interrupted level %r; got %r (missing %r, unexpected %r)'
                    % (what, n, sorted(remainder.elements())[:6], head[:6], missing, extra))
    got = Counter(tail)
    bad = [l for l in tail if l not in lab]
    if bad:
        msgs.append('alien: %s printed %r which is not in the language' % (what, bad[0]))
        return msgs
    for pt, (prob, lines) in pts.items():
        g = Counter({l: got[l] for l in lines if got[l]})
        if prob > p:
            if g:
                kind = 'replay-omen' if pt[0][0] == 'M' else 'above'
                msgs.append('%s: %s emitted %r again; its pre-terminal %r has probability %r above the saved position %r'
                            % (kind, what, sorted(g.elements())[:4], pt, prob, p))
        elif prob < p:
            if g != lines:
                msgs.append('%s: %s emitted the guesses of %r (prob %r < saved %r) as %r, expected each once'
                            % ('lost' if (lines - g) else 'repeat', what, pt, prob, p, dict(g)))
        else:
            if (lines - g):
                msgs.append('lost: %s did not emit all guesses of %r (prob == saved %r)' % (what, pt, p))
            elif any(v > 1 for v in g.values()):
                msgs.append('repeat: %s emitted guesses of %r more than once' % (what, pt))
    return msgs[:3]


def explore(td, spec, acc, maxdepth=3):  # maxdepth: number of quit/resume cycles explored
    lab, pts = labelled_language(spec)
    fails = []
    S.clear_session(td)
    U = S.run_guesser(td, ['-r', 'v'])
    acc.evals += 1
    if U.exc:
        return [('harness', 'uninterrupted run raised ' + U.exc)]
    msgs = check_resumed(U.stdout, Counter(), 1.0, lab, pts, 'the uninterrupted run')
    if msgs:
        return [('uninterrupted', m) for m in msgs]
    final_pt = lab[U.stdout[-1]]
    # node: (sav_raw, omn, remainder Counter, p, depth, history, quit_was_inside_final_preterminal)
    frontier = [(None, None, Counter(), 1.0, 0, [], False)]
    seen = set()
    while frontier:
        sav_raw, omn, remainder, p, depth, hist, in_final = frontier.pop(0)
        argv = ['-r', 'v'] + (['--load'] if sav_raw is not None else [])
        S.set_session(td, sav_raw, omn)
        full = S.run_guesser(td, argv)
        acc.evals += 1
        acc.validated += 1
        if full.exc:
            fails.append(('crash', 'history %r: resumed run raised %s' % (hist, full.exc.strip().splitlines()[-1])))
            continue
        if sav_raw is not None:
            msgs = check_resumed(full.stdout, remainder, p, lab, pts, 'the run resumed after quits at guesses %r' % (hist,))
            for m in msgs:
                sig = m.split(':', 1)[0]
                if in_final:
                    sig = 'quit-inside-final-preterminal:' + sig
                fails.append((sig, m))
            if len(fails) > 12:
                return fails
            if msgs:
                continue        # an inconsistent state has no meaningful successors
        if depth >= maxdepth:
            acc.count('states_at_the_depth_bound_not_expanded')
            continue
        n = sum(remainder.values())
        for j in range(0, len(full.stdout) + 1):
            S.set_session(td, sav_raw, omn)
            A = S.run_guesser(td, argv, quit_after=j)
            acc.evals += 1
            acc.transitions += 1
            if A.exc:
                fails.append(('crash', 'history %r + quit after %d raised %s' % (hist, j, A.exc.strip().splitlines()[-1])))
                continue
            if not A.fired:
                continue
            out = A.stdout
            if out != full.stdout[:len(out)]:
                fails.append(('prefix', 'history %r: run quit after %d is not a prefix of the same run left alone' % (hist, j)))
                continue
            if A.sav is None:
                fails.append(('nosave', 'history %r + quit after %d: no save file' % (hist, j)))
                continue
            # what does the quitting run still owe of the Markov level it was in?
            if n > 0 and len(out) <= n:
                new_rem = remainder - Counter(out)
                cur_pt = lab.get(out[-1]) if out else lab.get(next(iter(remainder)))
            else:
                tail = out[n:]
                cur_pt = lab.get(tail[-1]) if tail else None
                new_rem = Counter()
                if cur_pt is not None and cur_pt[0][0] == 'M':
                    here = Counter()
                    k = len(tail) - 1
                    while k >= 0 and lab.get(tail[k]) == cur_pt:
                        here[tail[k]] += 1
                        k -= 1
                    new_rem = pts[cur_pt][1] - here
            # did the main loop notice the quit (pop -> save) or did the run end first?
            noticed = 'Saving Session Info' in A.stderr
            if not noticed and not sum(new_rem.values()):
                # quit requested during the very last pre-terminal with nothing owed: the run simply ended; nothing to resume
                continue
            newp = float(A.sav['guessing_info.max_probability']) if noticed else None
            if not noticed:
                # run ended (queue exhausted) although strings of a Markov level are still owed: whatever is on disk is what a resume sees
                newp = float(A.sav['guessing_info.max_probability'])
            key = canon_state(A) + (tuple(sorted(new_rem.items())),)
            if key in seen:
                continue
            seen.add(key)
            acc.states += 1
            if sum(new_rem.values()) > 0:
                acc.nontrivial += 1
            frontier.append((A.sav_raw, A.omn, new_rem, newp, depth + 1, hist + [j],
                             bool(cur_pt == final_pt and sum(new_rem.values()) > 0)))
    return fails


SESSION_PAIRS = [('run2', 'run2a'), ('test', 'tests'), ('default_run', 'default_run.v'), ('job', 'job.sav'),
                 # names that end in a letter of '.sav', next to what is left of them without it
                 ('hashes', 'hashe'), ('alpha', 'alph'), ('dev', 'de'), ('x.', 'x')]


def run_two_sessions(acc):
    """E-hist over TWO named sessions in one directory: A is quit inside a Markov level, B (another session name, chosen to look alike) is started and
    quit inside another Markov level, then A is resumed.  What the resumed A writes is what it writes when B never ran."""
    spec = specs('quick')[5]
    td = tree.scratch_tree()
    R.write_ruleset(os.path.join(td, 'Rules', 'v'), spec)
    lab, pts = labelled_language(spec)
    U = S.run_guesser(td, ['-r', 'v'])
    if U.exc:
        raise RuntimeError('harness: reference run failed: ' + U.exc)
    inside = [j for j in range(1, len(U.stdout)) if lab[U.stdout[j - 1]][0][0] == 'M' and lab[U.stdout[j]] == lab[U.stdout[j - 1]]]
    for a, b in SESSION_PAIRS:
        for ja in inside:
            for jb in sorted(set([inside[0], inside[len(inside) // 2], inside[-1]])):
                if ja == jb:
                    continue
                for nm in (a, b):
                    S.clear_session(td, nm)
                A = S.run_guesser(td, ['-r', 'v', '-s', a], quit_after=ja, session=a)
                if A.exc or A.sav_raw is None:
                    continue
                ref = S.run_guesser(td, ['-r', 'v', '-s', a, '--load'], session=a)
                S.set_session(td, A.sav_raw, A.omn, session=a)
                B = S.run_guesser(td, ['-r', 'v', '-s', b], quit_after=jb, session=b)
                RA = S.run_guesser(td, ['-r', 'v', '-s', a, '--load'], session=a)
                acc.evals += 1
                acc.transitions += 3
                acc.nontrivial += 1
                case = {'layer': 'two-sessions', 'names': [a, b], 'quit_a': ja, 'quit_b': jb}
                if RA.exc or ref.exc or B.exc:
                    acc.fail(case, 'sessions %r / %r: a run raised %s' % (a, b, (RA.exc or ref.exc or B.exc).strip().splitlines()[-1]), 'crash')
                elif RA.stdout != ref.stdout:
                    d = next((x for x in range(min(len(ref.stdout), len(RA.stdout))) if ref.stdout[x] != RA.stdout[x]), min(len(ref.stdout), len(RA.stdout)))
                    acc.fail(case, 'session %r quit after guess %d (inside a Markov level), then session %r quit after guess %d: the resumed %r writes %r.. instead of %r.. '
                             '(first difference at line %d; %d lines instead of %d) - what another session did changed it'
                             % (a, ja, b, jb, a, RA.stdout[d:d + 3], ref.stdout[d:d + 3], d + 1, len(RA.stdout), len(ref.stdout)), 'sessions-interfere')
    tree.rmtree(td)


def run_shard(shard, tier, acc):
    if shard[0] == 'two-sessions':
        return run_two_sessions(acc)
    _, i = shard
    spec = specs(tier)[i]
    td = tree.scratch_tree()
    R.write_ruleset(os.path.join(td, 'Rules', 'v'), spec)
    # the bound of 8 cycles is not reached - the search ends because no new saved state appears (the counter above stays at 0): every
    # state reachable by any number of quit / resume cycles has been expanded
    fails = explore(td, spec, acc, maxdepth=8)
    for sig, msg in fails:
        acc.fail({'spec_index': i, 'name': spec['name']}, '[%s] %s' % (spec['name'], msg), sig)
    acc.sample({'ruleset': spec['name'], 'grammar': spec['grammar'], 'omen_prob': spec['omen']['omen_prob']}, cap=1)
    tree.rmtree(td)


def replay(case):
    from ..runner import Acc
    acc = Acc()
    if case.get('layer') == 'two-sessions':
        run_two_sessions(acc)
        fs = [f for f in acc.failures if f['case'] == case]
        return fs[0]['msg'] if fs else None
    run_shard(('bfs', case['spec_index']), 'thorough', acc)
    return acc.failures[0]['msg'] if acc.failures else None
