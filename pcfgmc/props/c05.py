"""C05 — training segments every password into a lossless, soundly typed tiling; counters are tallies."""
import itertools
from collections import Counter

from .. import tree
from . import c06

ID = 'C05'
LEVEL = 'exploration'
RULE = ('bounded-exhaustive: all strings of length <= 4 (5 in thorough) over a 14-symbol character alphabet and all sequences of <= 3 (4) trigger tokens (one token per detector trigger or near-trigger), '
        'each under 6 training histories of the multi-word detector, parsed by the real PCFGPasswordParser on a fresh parser; the section list handed to base_structure_creation is checked against '
        'the tiling/soundness predicates restated independently (keyboard adjacency, context list, year form, digit/alpha/other character classes, multi-word counts) and the counters against an independent tally; '
        'non-trivial = password whose segmentation has >= 2 sections or a non-"other" label')
ASSUMPTIONS = ['"digit segments are maximal digit runs" is checked as: all characters are digits and no digit section is adjacent to another digit section or to a year section (a digit section next to a keyboard-walk section that ends in a digit is not flagged)',
               'the reference counts of a multi-word history are an independent tally of the maximal letter runs (>= 4 letters) of its training passwords',
               'section lists are observed by wrapping base_structure_creation in the parser module namespace']
NSHARDS = 32

CHARS = ['a', 'B', 'é', '1', '9', '2', '0', '#', '.', '@', 'q', 'w', ' ', 'İ', '²']      # '²': isdigit() but not a decimal digit
TOKENS = ['pass', 'Word', 'word', 'password', 'é', 'Я', '1', '12', '19', '20', '2019', '1999', '20199', '#1', '#12', '<3', 'No.1', ';p', '*0*',
          'qwer', '1qaz', 'asdf', '123q', '!', '@', '.', '.com', 'www.', 'http://', 'a@b.com', 'mr.', ' ', 'İ', 'abcdefghijklmnopqrstu', 'zaq1', 'x',
          ':P', 'DR.', 'NO.1', '²', '①', '٣', 'κος', 'ſ', '½', 'Ⅷ', 'i\u0307',
          '1\u0446\u044b\u0447', '1\u0439\u0444\u044f', '\u044112', '.com/', '/']      # jcuken: a digit with the letter one key too far right below it (no walk), a column walk, the key left of 1      # '½', 'Ⅷ': numeric for isalnum(), neither letter nor digit       # context strings in spellings that are not in the fixed list
HISTORIES = [
    ('untrained', {}, False),
    ('pass,word >= 5', {'pass': 5, 'word': 5}, False),
    ('pass,word,password >= 5', {'pass': 5, 'word': 5, 'password': 5}, False),
    ('pass x4 (below threshold), word x5', {'pass': 4, 'word': 5}, False),
    ('pre-trained via set_threshold', {'pass': 1, 'word': 1}, True),
    ('21-letter word', {'abcdefghijklmnopqrstu': 5, 'pass': 5, 'word': 6, 'qwer': 5}, False),
    # histories made of passwords, as the first training pass feeds them: only maximal letter runs of >= 4 letters count as seen words
    ('short letter runs around a non-letter (nothing seen)', {'pa1ss': 5, 'wo#rd': 5, 'word': 4, 'pas.sword': 6}, False),
    ('words separated by non-letters', {'pass1word': 5, 'x1pass#Word': 1, '12pass': 1}, False),
    ('short run, non-letter, word', {'pw1pass': 5, 'wo2word': 5, 'a.b.word.c': 1, 'pa$$word': 7}, False),
]
THRESHOLD = 5
MIN_LEN, MAX_LEN = 4, 21


def seen_counts(history, set_threshold):
    """Reference reading of a training history: how often each word was seen = occurrences as a maximal run of letters (>= MIN_LEN letters,
    lower-cased) in a training password whose length is within [MIN_LEN, MAX_LEN]."""
    counts = Counter()
    for pw, n in history.items():
        if not MIN_LEN <= len(pw) <= MAX_LEN:
            continue
        run = ''
        for ch in pw.lower() + '\x00':
            if ch.isalpha():
                run += ch
            else:
                if len(run) >= MIN_LEN:
                    counts[run] += n
                run = ''
    return dict(counts)

CONTEXT = [';p', ':p', '*0*', '#1', 'No.1', 'no.1', 'No.', 'i<3', 'I<3', '<3', 'Mr.', 'mr.', 'MR.', 'MS.', 'Ms.', 'ms.', 'Mz.', 'mz.', 'MZ.', 'St.', 'st.', 'Dr.', 'dr.']
KEYBOARDS = {
    'qwerty': [('1234567890-=', '!@#$%^&*()_+'), ('qwertyuiop[]\\', 'QWERTYUIOP{}|'), ("asdfghjkl;'", 'ASDFGHJKL:"'), ('zxcvbnm,./', 'ZXCVBNM<>?')],
    'jcuken': [('1234567890-=', '!"№;%:?*()_+'), ('йцукенгшщзхъ\\', 'ЙЦУКЕНГШЩЗХЪ/'), ('фывапролджэ', 'ФЫВАПРОЛДЖЭ'), ('ячсмитьбю', 'ЯЧСМИТЬБЮ,')],
}


def key_pos(layout, ch):
    for r, (plain, shifted) in enumerate(KEYBOARDS[layout]):
        if ch in plain:
            return r, plain.index(ch)
        if ch in shifted:
            return r, shifted.index(ch)
    return None


def adjacent(layout, a, b):
    pa, pb = key_pos(layout, a), key_pos(layout, b)
    if pa is None or pb is None or pa == pb:
        return False
    (ra, ca), (rb, cb) = pa, pb
    if ra == rb:
        return abs(ca - cb) == 1
    if rb == ra + 1:
        return cb in (ca, ca - 1)
    if rb == ra - 1:
        return cb in (ca, ca + 1)
    return False


def is_walk(s):
    return any(all(adjacent(lay, a, b) for a, b in zip(s, s[1:])) for lay in KEYBOARDS)


def classes(s):
    return {('a' if ch.isalpha() else 'd' if ch.isdigit() else 's') for ch in s}


def predicates(password, sections, counts, set_threshold):
    """-> list of (clause, message)"""
    out = []
    if any((lab is None or lab == '') for _, lab in sections):
        out.append(('untyped', 'section without a label in %r' % (sections,)))
        return out
    if any(val == '' for val, _ in sections):
        out.append(('empty', 'empty section in %r' % (sections,)))
    # tiling
    pos = 0
    ok = True
    for val, lab in sections:
        piece = password[pos:pos + len(val)]
        if lab[0] == 'W':
            if c06.lower_ref(piece) != val and piece != val:
                ok = False
        elif piece != val:
            ok = False
        pos += len(val)
    if not ok or pos != len(password):
        out.append(('tiling', 'sections %r do not tile %r' % (sections, password)))
    prev = None
    run = []
    runs = []
    for val, lab in sections:
        k = lab[0]
        if k in 'ADOK':
            try:
                n = int(lab[1:])
            except ValueError:
                n = -1
            if n != len(val):
                out.append(('length', 'label %s on %r (length %d)' % (lab, val, len(val))))
        if k == 'D':
            if not val or not all(ch.isdigit() for ch in val):
                out.append(('digit', 'digit section %r contains a non-digit' % val))
            if prev == 'D':
                out.append(('digit', 'two adjacent digit sections in %r' % (sections,)))
            if prev == 'Y':
                out.append(('digit', 'digit section right after a year section (not a maximal digit run) in %r' % (sections,)))
        elif k == 'A':
            if not val or not all(ch.isalpha() for ch in val):
                out.append(('alpha', 'alpha section %r contains a non-letter' % val))
        elif k == 'O':
            if any(ch.isalpha() or ch.isdigit() for ch in val):
                out.append(('other', "'other' section %r contains a letter or digit" % val))
        elif k == 'Y':
            if prev == 'D':
                out.append(('digit', 'digit section right before a year section (not a maximal digit run) in %r' % (sections,)))
            if not (len(val) == 4 and val.isdigit() and val[:2] in ('19', '20')) or lab != 'Y1':
                out.append(('year', 'year section %r' % val))
        elif k == 'K':
            if len(val) < 4 or not is_walk(val) or len(classes(val)) < 2:
                out.append(('keyboard', 'keyboard section %r is not a walk of >= 4 adjacent keys mixing character classes' % val))
        elif k == 'X':
            if val not in CONTEXT or lab != 'X1':
                out.append(('context', 'context section %r is not in the fixed list' % val))
        elif k in 'EW':
            pass
        else:
            out.append(('untyped', 'unknown label %r' % lab))
        if k == 'A':
            run.append(val)
        else:
            if run:
                runs.append(run)
            run = []
        prev = k
    if run:
        runs.append(run)
    for r in runs:
        if len(r) >= 2:
            def cnt(w):
                c = counts.get(w.lower(), 0)
                return THRESHOLD if (set_threshold and c) else c
            whole = ''.join(r)
            if any(cnt(w) < THRESHOLD for w in r):
                out.append(('multiword', 'alpha run %r split into %r but counts are %r' % (whole, r, [cnt(w) for w in r])))
            if cnt(whole) >= THRESHOLD:
                out.append(('multiword', 'alpha run %r was split into %r although the whole was seen %d times' % (whole, r, cnt(whole))))
    return out


def strings(tier):
    chars = CHARS
    maxlen = 4
    if tier == 'thorough':
        maxlen = 5
    for n in range(1, maxlen + 1):
        cs = chars if n <= 4 else [c for c in chars if c not in ('w', '0')]
        for t in itertools.product(cs, repeat=n):
            yield ''.join(t)
    # the corners of the two keyboard layouts, where rows differ in length and one key sits at different places (every string of four keys)
    for corner in ('\u044f\u0447\u0441\u0444\u044b,\u044e\u0431.1', 'zxas,./m<?'):
        for t in itertools.product(corner, repeat=4):
            yield ''.join(t)
    toks = TOKENS
    for n in range(1, 4):
        for t in itertools.product(toks, repeat=n):
            yield ''.join(t)
    if tier == 'thorough':
        sub = ['pass', 'Word', 'password', '1', '19', '2019', '#1', '<3', 'No.1', 'qwer', '1qaz', '!', '@', '.com', 'www.', 'a@b.com', ' ', 'İ', 'é', 'x']
        for t in itertools.product(sub, repeat=4):
            yield ''.join(t)


def shards(tier):
    return [('s', i, NSHARDS) for i in range(NSHARDS)]


def bounds(tier):
    return {'characters': CHARS, 'max_string_length': 4 if tier == 'quick' else 5, 'tokens': TOKENS,
            'max_token_sequence': 3 if tier == 'quick' else 4, 'histories': [h[0] for h in HISTORIES]}


def make_md(MW, hist):
    name, counts, st = hist
    md = MW(threshold=5, min_len=4, max_len=21)
    for w, n in counts.items():
        for _ in range(n):
            md.train(w, set_threshold=st)
    return md


def check_password(pp, md, hist, pw, last, again=False):
    """returns list of (clause, msg)"""
    parser = pp.PCFGPasswordParser(md)
    try:
        parser.parse(pw)
    except Exception as e:
        return [('raise', 'parse(%r) raised %r' % (pw, e))], None
    (sup, bs), sections = last
    res = predicates(pw, sections, seen_counts(hist[1], hist[2]), hist[2])
    if not res:
        t = c06.tally({pw: (sup, bs, sections)}, [pw])
        got = {'A': parser.count_alpha, 'C': parser.count_alpha_masks, 'D': parser.count_digits, 'O': parser.count_other, 'K': parser.count_keyboard,
               'Y': parser.count_years, 'X': parser.count_context_sensitive, 'base': parser.count_base_structures,
               'raw': parser.count_raw_base_structures, 'prince': parser.count_prince}
        for k, want in t.items():
            g = got[k]
            if k in 'ACDOK':
                g = {n: Counter(c) for n, c in g.items() if c}
                want = {n: Counter(c) for n, c in want.items()}
            else:
                g = Counter({a: b for a, b in g.items() if b})
            if g != want:
                res.append(('counters', 'counter %s after one parse is %r, tally of the sections %r is %r' % (k, dict(g), sections, dict(want))))
                break
        if not res and again:
            # E-hist over the parser object: the same password once more on the same parser (the next line of a sorted list, the next copy of a counted
            # line): the same sections, and every counter doubled
            first = list(sections)
            try:
                parser.parse(pw)
            except Exception as e:
                return [('repeat', 'the second parse(%r) on one parser raised %r' % (pw, e))], sections
            if last[1] != first:
                res.append(('repeat', 'the second parse on one parser gives sections %r, the first one gave %r' % (last[1], first)))
            else:
                for k, want in t.items():
                    g = got[k]
                    if k in 'ACDOK':
                        g = {n: Counter(c) for n, c in g.items() if c}
                        want = {n: Counter({a: 2 * b for a, b in c.items()}) for n, c in want.items()}
                    else:
                        g = Counter({a: b for a, b in g.items() if b})
                        want = Counter({a: 2 * b for a, b in want.items()})
                    if g != want:
                        res.append(('repeat', 'counter %s after two parses of the same password on one parser is %r, twice the tally of the sections %r is %r' % (k, dict(g), first, dict(want))))
                        break
    return res, sections


def run_shard(shard, tier, acc):
    _, si, ns = shard
    tree.use()
    MW = tree.imp('lib_trainer.detection_rules.multiword_detector').MultiWordDetector
    pp = tree.imp('lib_trainer.pcfg_password_parser')
    orig = pp.base_structure_creation
    last = [None, None]

    def wrapped(section_list):
        last[1] = [tuple(s) for s in section_list]
        r = orig(section_list)
        last[0] = r
        return r
    pp.base_structure_creation = wrapped
    mds = [make_md(MW, h) for h in HISTORIES]
    import io, contextlib
    sink = io.StringIO()
    try:
        for idx, pw in enumerate(strings(tier)):
            if idx % ns != si:
                continue
            for hi, hist in enumerate(HISTORIES):
                acc.evals += 1
                last[0] = last[1] = None
                with contextlib.redirect_stdout(sink):
                    res, sections = check_password(pp, mds[hi], hist, pw, last, again=(hi == 1))
                sink.seek(0)
                sink.truncate()
                if sections and (len(sections) >= 2 or sections[0][1][0] != 'O'):
                    acc.nontrivial += 1
                for clause, msg in res:
                    sig = clause
                    if 'İ' in pw:
                        sig = 'U+0130:' + clause
                    acc.fail({'password': pw, 'history': hi}, '%r (history: %s): %s' % (pw, hist[0], msg), sig)
                if idx % 4001 == si and hi == 1 and sections:
                    acc.sample({'password': pw, 'history': hist[0], 'sections': sections}, cap=2)
        # E-hist over ONE detector object: trained, used, trained further, used again (histories 0, 1, 2 are cumulative).  What a parse returns depends
        # on what the detector has been taught so far and on nothing the detector or the parser did before
        # (two chains: one that is first used while untrained, one that is first used after stage 1 - a run that was not split once may stay unsplit
        # without harm, a run that was split must stop being split once the whole has been seen often enough)
        for first_use in (1, 0):
            chain = MW(threshold=5, min_len=4, max_len=21)
            taught = {}
            for stage in (0, 1, 2):
                for w, n in HISTORIES[stage][1].items():
                    for _ in range(n - taught.get(w, 0)):
                        chain.train(w)
                    taught[w] = n
                if stage < first_use:
                    continue
                hist = ('one detector object first used at stage %d, now after stage %d (%s)' % (first_use, stage, HISTORIES[stage][0]), dict(taught), False)
                for idx, pw in enumerate(strings(tier)):
                    if idx % ns != si or (idx // ns) % 2 != first_use:
                        continue
                    acc.evals += 1
                    last[0] = last[1] = None
                    with contextlib.redirect_stdout(sink):
                        res, sections = check_password(pp, chain, hist, pw, last)
                    sink.seek(0)
                    sink.truncate()
                    for clause, msg in res:
                        acc.fail({'password': pw, 'history': 'chain', 'stage': stage, 'first_use': first_use}, '%r (history: %s): %s' % (pw, hist[0], msg), 'chain:' + clause)
    finally:
        pp.base_structure_creation = orig


def replay_chain(case):
    """The chain up to the stage of the case; at every earlier stage the same password is parsed as well (that is the history the finding depends on)."""
    tree.use()
    MW = tree.imp('lib_trainer.detection_rules.multiword_detector').MultiWordDetector
    pp = tree.imp('lib_trainer.pcfg_password_parser')
    orig = pp.base_structure_creation
    last = [None, None]

    def wrapped(section_list):
        last[1] = [tuple(s) for s in section_list]
        r = orig(section_list)
        last[0] = r
        return r
    pp.base_structure_creation = wrapped
    res = []
    try:
        chain = MW(threshold=5, min_len=4, max_len=21)
        taught = {}
        for stage in range(case['stage'] + 1):
            for w, n in HISTORIES[stage][1].items():
                for _ in range(n - taught.get(w, 0)):
                    chain.train(w)
                taught[w] = n
            if stage < case.get('first_use', 0):
                continue
            res, sections = check_password(pp, chain, ('stage %d' % stage, dict(taught), False), case['password'], last)
    finally:
        pp.base_structure_creation = orig
    return res[0][1] if res else None


def replay(case):
    if case.get('history') == 'chain':
        return replay_chain(case)
    tree.use()
    MW = tree.imp('lib_trainer.detection_rules.multiword_detector').MultiWordDetector
    pp = tree.imp('lib_trainer.pcfg_password_parser')
    orig = pp.base_structure_creation
    last = [None, None]

    def wrapped(section_list):
        last[1] = [tuple(s) for s in section_list]
        r = orig(section_list)
        last[0] = r
        return r
    pp.base_structure_creation = wrapped
    try:
        hist = HISTORIES[case['history']]
        res, sections = check_password(pp, make_md(MW, hist), hist, case['password'], last)
    finally:
        pp.base_structure_creation = orig
    return res[0][1] if res else None
