"""C01 / C02: explicit-state exploration of the real PcfgQueue over finite ruleset families.

One execution = one complete run of PcfgQueue(next until None) over an in-memory grammar; the
state after every pop (emitted multiset + heap content) is inspected.  Both oracles are
evaluated on every execution; each property reports only its own oracle's failures.
"""
import itertools
from collections import Counter
from fractions import Fraction

from .. import tree
from .. import rulesets as R

NSHARDS = 64


def families(tier):
    """name -> generator factory.  Every family is a finite, duplicate-free enumeration."""
    fam = {}
    fam['single_quick'] = lambda: R.family_single(R.V_QUICK, 3, [1.0, 0.5, 0.3, 0.25])
    fam['single_underflow'] = lambda: R.family_single(R.V_UNDER, 3, [1.0, 5e-324], patterns=['A', 'AA', 'AB', 'AAB', 'ABA', 'ABC'])
    fam['pairs_tiny'] = lambda: R.family_multi(R.V_TINY, 2, [0.5, 0.25, 0.3], 2)
    fam['long_lists_similar_names'] = family_similar_names
    # a variable type used two or three times with non-dyadic values: the same factors multiplied in different orders give products one ulp apart
    fam['repeated_type_nondyadic'] = lambda: R.family_single([0.7, 0.3, 0.1, 0.5], 3, [0.3, 1.0], patterns=['AAA', 'AAB', 'ABA', 'ABB'])
    # pre-terminal probabilities around 2.2e-16 (machine epsilon as an ABSOLUTE number): gaps between co-parents below it, at it and above it -
    # a tie test with an absolute tolerance is not transitive here
    fam['near_epsilon'] = lambda: R.family_single([1.0, 0.7, 0.5, 0.3], 3, [2e-14, 1e-14, 6e-15, 3e-15, 1e-15], patterns=['AB', 'ABC'])
    # structures of 8 transitions with EQUAL base probability and different group probabilities (anything remembered per base probability,
    # or switched on only for long structures, meets its twin here)
    fam['long_tied_structures'] = family_long_tied
    if tier == 'thorough':
        fam['single_full2'] = lambda: R.family_single(R.V_FULL, 3, [1.0, 0.3], patterns=['A', 'AA', 'AB', 'AAA', 'AAB', 'ABA', 'ABB'])
        fam['single_full3'] = lambda: R.family_single(R.V_FULL, 2, [1.0, 0.3], patterns=['ABC'])
        fam['single_abc_dyadic'] = lambda: R.family_single([1.0, 0.5, 0.25, 0.125, 0.0625, 0.3], 3, [0.5], patterns=['ABC', 'AAB', 'ABA', 'ABB', 'AAA'])
        fam['pairs_quick'] = lambda: R.family_multi(R.V_QUICK, 2, [0.5, 0.25, 0.3], 2)
        fam['triples_tiny'] = lambda: R.family_multi(R.V_TINY, 2, [0.5, 0.25], 3)
        fam['single_4vars'] = lambda: R.family_single([1.0, 0.5, 0.25, 0.3], 2, [0.5], patterns=R.PATTERNS4)
        fam['pairs_abc'] = lambda: R.family_multi([0.5, 0.25, 0.3], 2, [0.5, 0.25], 2, max_vars=3, type_names='AB')
    return fam


def family_similar_names():
    """Variable names that are prefixes of each other (D2 / D21 / D211, as in real rulesets) with group lists long enough for
    two-digit indices, in structures of equal base probability: anything keyed on a textual rendering of (name, index) collides here."""
    def geo(n, ratio, start=1.0):
        out = []
        p = start
        for _ in range(n):
            out.append(p)
            p *= ratio
        return out
    for n_long, n_short in ((12, 4), (23, 3), (11, 11)):
        for ratio in (0.5, 0.7):
            for names in (('D2', 'D21'), ('A1', 'A11'), ('D2', 'D21', 'D211')):
                types = {}
                for k, name in enumerate(names):
                    types[name] = geo(n_long if k == 0 else n_short, ratio, start=1.0 if k == 0 else 0.75)
                for bps in ((0.5,) * len(names), (0.5, 0.25, 0.125)[:len(names)]):
                    yield types, [(bp, [name]) for bp, name in zip(bps, names)]
                # the same names inside longer structures
                yield types, [(0.5, [names[0], names[1]]), (0.5, [names[1], names[0]])]


def family_long_tied():
    for v1, v2 in (([.7, .3], [.6, .4]), ([.5, .25], [.5, .3]), ([.9, .1], [.8, .15, .05])):
        for half in (4,):
            types = {'D1': v1, 'D2': v2, 'O1': [.5, .25]}
            for bps in ((.25, .25, .5), (.3, .3, .3)):
                yield types, [(bps[0], ['D1', 'O1'] * half), (bps[1], ['D2', 'O1'] * half), (bps[2], ['D1', 'O1'])]
                yield types, [(bps[0], ['D2', 'O1'] * half), (bps[1], ['D1', 'O1'] * half), (bps[2], ['O1', 'D2'])]


def shards(tier):
    return [(name, i, NSHARDS) for name in families(tier) for i in range(NSHARDS)]


def bounds(tier):
    return {
        'families': sorted(families(tier)),
        'values': {'quick': R.V_QUICK, 'full': R.V_FULL, 'tiny': R.V_TINY, 'underflow': R.V_UNDER},
        'max_variables_per_structure': 4 if tier == 'thorough' else 3, 'max_groups_per_type': 3,
        'max_base_structures': 3 if tier == 'thorough' else 2,
        'run': 'every ruleset is run to exhaustion; every prefix (state after each pop) is checked',
    }


def grid_of(types, base):
    """Reference language: Counter of (pt tuple, base_prob) with multiplicity per structure line."""
    mult = Counter()
    for bp, reps in base:
        ranges = [range(len(types[r])) for r in reps]
        for idx in itertools.product(*ranges):
            mult[(tuple(zip(reps, idx)), bp)] += 1
    return mult


def prob_of(types, pt, bp):
    p = bp
    for t, i in pt:
        p *= types[t][i]
    return p


def classify(types, base, acc):
    """Coverage bookkeeping: tie patterns among co-parents; returns (has_ties_among_parents, has_equal_pts, repeated_type)."""
    parent_tie = False
    rep = any(len(set(reps)) < len(reps) for _, reps in base)
    probs = Counter()
    for bp, reps in base:
        ranges = [range(len(types[r])) for r in reps]
        for idx in itertools.product(*ranges):
            pt = tuple(zip(reps, idx))
            probs[prob_of(types, pt, bp)] += 1
            pp = []
            for pos, (t, i) in enumerate(pt):
                if i > 0:
                    par = pt[:pos] + ((t, i - 1),) + pt[pos + 1:]
                    pp.append(prob_of(types, par, bp))
            if len(pp) >= 2:
                order = sorted(set(pp))
                pat = tuple(order.index(x) for x in pp)
                acc.add('coparent_weak_orders', pat)
                if len(order) < len(pp):
                    parent_tie = True
    eq = any(v > 1 for v in probs.values())
    return parent_tie, eq, rep


def explore(mods, types, base, acc, want_samples=True, g=None):
    """Run the real queue once; return list of (oracle, msg) failures.  g: a grammar object that has been used before (default: a fresh one)."""
    PcfgGrammar, PcfgQueue = mods
    fails = []
    if g is None:
        g = R.mem_grammar(PcfgGrammar, types, base)
    mult = grid_of(types, base)
    total = sum(mult.values())
    try:
        q = PcfgQueue(g)
    except Exception as e:
        return [('C01', 'raise: PcfgQueue() raised %r' % (e,)), ('C02', 'raise: PcfgQueue() raised %r' % (e,))], []
    emitted = Counter()
    seq = []
    last = None
    npop = 0
    has_heap = hasattr(q, 'p_queue')
    while True:
        try:
            it = q.next()
        except Exception as e:
            fails.append(('C01', 'raise: PcfgQueue.next() raised %r after %d pops' % (e, npop)))
            fails.append(('C02', 'raise: PcfgQueue.next() raised %r after %d pops' % (e, npop)))
            break
        if it is None:
            break
        npop += 1
        acc.transitions += 1
        if npop > 2 * total + 5:
            fails.append(('C02', 'runaway: more than 2x the language size popped'))
            break
        pt = tuple(tuple(x) for x in it['pt'])
        prob = it['prob']
        bp = it['base_prob']
        key = (pt, bp)
        seq.append((pt, prob))
        # --- C01 oracles
        if last is not None and prob > last:
            fails.append(('C01', 'order: pop %d has prob %r > previous %r (pt %r)' % (npop, prob, last, pt)))
        last = prob
        factors = [bp] + [types[t][i] for t, i in pt] if all(t in types and 0 <= i < len(types[t]) for t, i in pt) else None
        if factors is None:
            fails.append(('C02', 'emitted a vector outside the grid: %r' % (pt,)))
        elif not R.within_slack(prob, R.exact_product(factors), len(factors)):
            fails.append(('C01', 'reported prob %r is not the product of %r' % (prob, factors)))
        # --- C02 oracles
        emitted[key] += 1
        if emitted[key] > mult.get(key, 0):
            fails.append(('C02', 'pre-terminal %r emitted %d times (multiplicity %d) at pop %d' % (pt, emitted[key], mult.get(key, 0), npop)))
        if has_heap:
            queued = Counter()
            for qi in q.p_queue:
                item = qi.pt_item
                k2 = (tuple(tuple(x) for x in item['pt']), item['base_prob'])
                queued[k2] += 1
                if item['prob'] > prob:
                    fails.append(('C01', 'heap holds %r with prob %r above the last popped %r' % (k2[0], item['prob'], prob)))
            for k2, n in queued.items():
                if n + emitted.get(k2, 0) > mult.get(k2, 0):
                    fails.append(('C02', 'state after pop %d: %r queued %d + emitted %d > multiplicity %d'
                                  % (npop, k2[0], n, emitted.get(k2, 0), mult.get(k2, 0))))
            acc.states += 1
        if len(fails) > 5:
            break
    if emitted != mult and not any(f[0] == 'C02' for f in fails):
        missing = list((mult - emitted).items())[:3]
        extra = list((emitted - mult).items())[:3]
        fails.append(('C02', 'at exhaustion: missing %r extra %r (emitted %d of %d)' % (missing, extra, sum(emitted.values()), total)))
    elif emitted != mult:
        fails.append(('C02', 'at exhaustion: emitted %d of %d' % (sum(emitted.values()), total)))
    return fails, seq


def run_shard(shard, tier, acc, oracle):
    name, si, ns = shard
    tree.use()
    PcfgGrammar = tree.imp('lib_guesser.pcfg_grammar').PcfgGrammar
    PcfgQueue = tree.imp('lib_guesser.priority_queue').PcfgQueue
    mods = (PcfgGrammar, PcfgQueue)
    gen = families(tier)[name]()
    for idx, (types, base) in enumerate(gen):
        if idx % ns != si:
            continue
        R.well_formed(types, base)
        acc.evals += 1
        parent_tie, eq, rep = classify(types, base, acc)
        if oracle == 'C01':
            if eq or rep:
                acc.nontrivial += 1
        else:
            if parent_tie or rep:
                acc.nontrivial += 1
        if parent_tie:
            acc.count('rulesets_with_tied_coparents')
        if eq:
            acc.count('rulesets_with_equal_probability_preterminals')
        if rep:
            acc.count('rulesets_with_repeated_type')
        fails, seq = explore(mods, types, base, acc)
        # E-hist over queue objects: a queue that is abandoned after j pops (a --limit run, a quit) must leave nothing behind for the queue that
        # is built next in the same process
        if idx % 40 == si % 40:
            g0 = R.mem_grammar(PcfgGrammar, types, base)
            for j in (1, 2, 3):
                try:
                    q0 = PcfgQueue(g0)
                    for _ in range(j):
                        if q0.next() is None:
                            break
                except Exception as e:
                    fails.append(('C01', 'raise: a queue built after an abandoned one raised %r' % (e,)))
                    break
                # the next queue: once over a fresh grammar object, once over the very grammar object the abandoned queue was built on
                fails3, seq3 = explore(mods, types, base, Acc0, g=g0 if j == 2 else None)
                acc.count('runs_after_an_abandoned_queue')
                if seq3 != seq:
                    fails.append(('C01', 'abandoned: a queue abandoned after %d pops changes the run of the next queue: %r vs %r' % (j, seq3[:5], seq[:5])))
                    fails.append(('C02', 'abandoned: a queue abandoned after %d pops changes the run of the next queue (%d pops instead of %d)' % (j, len(seq3), len(seq))))
                    break
        # queue bound: PcfgQueue.max_queue_size ("used for memory management", 50 000, not read by today's code) pinned to 1, 2, 3 - the size at which a
        # bound would act on rulesets of this family; whatever a bounded queue does with its entries, the run must satisfy the same oracles
        if (idx // ns) % 5 == 2 and len(base) >= 2:
            for k in (1, 2, 3):
                failsk, seqk = explore((PcfgGrammar, capped(PcfgQueue, k)), types, base, Acc0)
                acc.count('runs_with_bounded_queue')
                for orc, msg in failsk[:2]:
                    fails.append((orc, 'bounded: with max_queue_size=%d: %s' % (k, msg)))
                if failsk:
                    break
        # determinism: a second, independent run must give the identical sequence
        if idx % 2 == 0 or fails:
            fails2, seq2 = explore(mods, types, base, Acc0)
            acc.validated += 1
            if seq2 != seq:
                fails.append(('C01', 'two runs over the same ruleset differ: %r vs %r' % (seq[:6], seq2[:6])))
        case = {'types': types, 'base': base}
        for orc, msg in fails:
            acc.fail(case, msg, sig=signature(orc, msg), oracle=orc)
        if idx % 997 == si:
            acc.sample({'family': name, 'types': types, 'base': base,
                        'emitted': [[list(map(list, pt)), p] for pt, p in seq[:8]]}, cap=1)


def capped(PcfgQueue, k):
    """The real queue class with its size bound pinned to k: the constructor's own `self.max_queue_size = 50000` lands in the setter and is dropped."""
    class BoundedQueue(PcfgQueue):
        max_queue_size = property(lambda self: k, lambda self, value: None)
    return BoundedQueue


class _Acc0:
    """Throw-away accumulator for the validation re-run."""
    states = 0
    transitions = 0

    def add(self, *a):
        pass

    def count(self, *a):
        pass


Acc0 = _Acc0()


def signature(orc, msg):
    return orc + ':' + msg.split(':', 1)[0].split(' ')[0]


def replay(case, oracle):
    tree.use()
    PcfgGrammar = tree.imp('lib_guesser.pcfg_grammar').PcfgGrammar
    PcfgQueue = tree.imp('lib_guesser.priority_queue').PcfgQueue
    types = {k: [float(x) for x in v] for k, v in case['types'].items()}
    base = [(float(p), list(r)) for p, r in case['base']]
    fails, seq = explore((PcfgGrammar, PcfgQueue), types, base, Acc0)
    # the histories of run_shard: bounded queues, a run after an abandoned queue
    for k in (1, 2, 3):
        failsk, _ = explore((PcfgGrammar, capped(PcfgQueue, k)), types, base, Acc0)
        fails += [(orc, 'bounded: with max_queue_size=%d: %s' % (k, msg)) for orc, msg in failsk[:2]]
    g0 = R.mem_grammar(PcfgGrammar, types, base)
    for j in (1, 2, 3):
        try:
            q0 = PcfgQueue(g0)
            for _ in range(j):
                if q0.next() is None:
                    break
        except Exception as e:
            fails.append((oracle, 'raise: a queue built after an abandoned one raised %r' % (e,)))
            break
        fails3, seq3 = explore((PcfgGrammar, PcfgQueue), types, base, Acc0, g=g0 if j == 2 else None)
        if seq3 != seq:
            fails.append((oracle, 'abandoned: a queue abandoned after %d pops changes the run of the next queue' % j))
            break
    fails = [f for f in fails if f[0] == oracle]
    if fails:
        return '; '.join(m for _, m in fails[:3])
    return None
