"""C11 — trainer, scorer and guesser agree on every string's OMEN level."""
import itertools
import os
from collections import Counter

from .. import tree
from .. import pipeline as P
from . import omen_common as O

ID = 'C11'
LEVEL = 'exploration'
RULE = ('bounded-exhaustive: every training list of <= 2 (3 in thorough) passwords from a 17-password pool over {a,b,1,space} (lengths 1..6, 21 and 22) x n-gram {2,3,4}(+5) x alphabet size {2,3,10} is trained with the real trainer; '
        'for every candidate string over {a,b,1,Z,space} up to length min(ngram+2,6), every training password and the boundary lengths, the level from the trainer third-pass function on the captured in-memory model, '
        'the level from the real OmenScorer on the saved files and the level(s) at which the loaded guesser grammar generates the string (reference semantics, cross-checked against the real MarkovCracker output for levels <= 6) '
        'must agree or all say "cannot be generated"; omen_pws_per_level.txt must be the tally; non-trivial = (training, candidate) with a level != -1')
ASSUMPTIONS = ['the guesser level is computed on the grammar dictionary returned by the real load_rules with the generator semantics that C10 establishes; for levels <= 6 it is also cross-checked against real MarkovCracker output',
               'utf-8 rulesets, plus three small lists with non-ASCII letters as latin-1 / cp1251 / utf-16 rulesets (every code point in every encoding: C07)']
NSHARDS = 32
POOL = ['a', 'ab', 'aab', 'abab', 'ab1', '1ab1', 'bbbb', 'aaaaa', 'ab1ab1', 'b1', 'abba', 'a1a1a', 'a' * 21, 'ab' * 11, 'a b', 'ab ab', ' ab ']

# one continuation seen once after a context seen > e^10 / 2 times: the transition is smoothed to the cap (level 10), so strings sit exactly at
# level 10 x transitions and every level above that must be empty for them
K10 = 45000
CAPPED = [['love'] * K10 + ['dove'] * 40 + ['hove'] * 15 + ['move', 'lovx'],      # initial n-grams at levels 0, 1, 2 and 5
          ['love'] * K10 + ['lovx'], ['ab'] * K10 + ['aa'], ['love'] * K10 + ['lovx', 'lovey', 'ilove'], ['aba'] * K10 + ['abb', 'ab', 'ba']]

# 1 444 passwords with 1 444 different beginnings (n-gram 3): every initial n-gram has a share below 0.147 %, so the cheapest initial level is 1, not 0
_AL38 = 'abcdefghijklmnopqrstuvwxyz0123456789!@'
SPREAD = [x + y + _AL38[(7 * i + 3 * j) % 38] for i, x in enumerate(_AL38) for j, y in enumerate(_AL38)]
# ... 556 of the beginnings a second time (with another third character, some in a four-character password): initial n-grams on levels 1 and 2
SPREAD += [x + y + _AL38[(5 * i + j + 1) % 38] + ('a' if (i + j) % 9 == 0 else '') for i, x in enumerate(_AL38[:15]) for j, y in enumerate(_AL38)][:556]


# 729 equally common beginnings (no initial n-gram on level 0) AND a context seen 45 198 times with one rare successor (a level-10 transition) in a
# password whose length is the n-gram size: the remaining level of that one-transition structure is negative at the low levels
_B9 = 'xyzuvwrst'
SPREAD10 = [a + b + c + 'aaab' for a in _B9 for b in _B9 for c in _B9 for _ in range(62)] + [a + b + c + 'c' for a in _B9 for b in _B9 for c in _B9 for _ in range(8)] + ['aaabxyz'] * 69 + ['aaaq']      # 'aaa' begins 70 passwords, like every other beginning


def rle(lines):
    out = []
    for l in lines:
        if out and out[-1][0] == l:
            out[-1][1] += 1
        else:
            out.append([l, 1])
    return out


def unrle(runs):
    return [w for w, n in runs for _ in range(n)]


def trainings(tier):
    maxk = 3 if tier == 'thorough' else 2
    ngrams = [2, 3, 4, 5] if tier == 'thorough' else [2, 3, 4]
    lists = []
    for k in range(1, maxk + 1):
        for combo in itertools.combinations(POOL, k):
            lists.append(list(combo))
    for a, b in itertools.combinations(POOL[:8], 2):
        lists.append([a] * 3 + [b])
    if tier == 'quick':
        lists += [['ab1', 'abab', 'bbbb'], ['aab', 'ab1ab1', 'a' * 21], ['aaaaa', '1ab1', 'abba', 'a1a1a']]
    for l in lists:
        for ng in ngrams:
            for al in (2, 3, 10):
                yield l, dict(ngram=ng, alphabet_size=al, coverage=0.5)
    for l in CAPPED:
        for ng in (2, 3, 4):
            yield l, dict(ngram=ng, alphabet_size=10, coverage=0.5)
    yield SPREAD, dict(ngram=3, alphabet_size=100, coverage=0.5)
    yield SPREAD10, dict(ngram=4, alphabet_size=100, coverage=0.5)
    # the same lists written as `sort | uniq -c` prints them and trained with --prefixcount: all three passes see the same passwords
    for l in (['ab1'] * 3 + ['abab'] * 2 + ['bbbb'], ['aab'] * 5 + ['ab1ab1', 'a' * 21, 'ab'], ['love'] * 12 + ['dove'] * 3 + ['lovely', 'glove', 'lo']):
        for ng in (2, 3):
            yield l, dict(ngram=ng, alphabet_size=10, coverage=0.5, counted=True)
    # rulesets in an encoding other than the platform's: every OMEN file is written and read in the ruleset's encoding
    for l, enc in ((['caf\xe912', 'se\xf1or1', 'm\xfcller', 'cafe12', '\xe9\xe9', 'caf\xe912'], 'latin-1'),
                   (['\u043f\u0430\u0440\u043e\u043b\u044c', '\u043f\u0430\u0440\u043e\u043b\u044c1', 'parol1', '\u043f\u0430'], 'cp1251'),
                   (['caf\xe912', '\u043f\u0430\u0440\u043e\u043b\u044c', '\u4e2d\u56fd\u4e2d\u56fd', 'ab'], 'utf-16')):
        for ng in (2, 3):
            yield l, dict(ngram=ng, alphabet_size=100, coverage=0.5, encoding=enc)
    if tier == 'thorough':
        # every pair of strings over {a,b} of length 4..6 (dead ends, shared prefixes, cycles), alphabet large enough for both letters
        words = [''.join(t) for n in (4, 5, 6) for t in itertools.product('ab', repeat=n)]
        for a, b in itertools.combinations(words, 2):
            for ng in (2, 3, 4):
                yield [a, b], dict(ngram=ng, alphabet_size=10, coverage=0.5)


def candidates(ngram, lines):
    maxlen = min(ngram + 2, 6)
    out = []
    for n in range(1, maxlen + 1):
        out.extend(''.join(t) for t in itertools.product('ab1Z ' if n <= 5 else 'ab1Z', repeat=n))
    out.extend(lines)
    out.extend(['a' * 20, 'a' * 21, 'a' * 22, 'ab' * 10 + 'a', 'ab' * 11])
    return list(dict.fromkeys(out))


# the scorer as the tool runs it (PCFGPasswordScorer.parse, column 4 of password_scorer.py), on strings its PCFG half classifies as e-mail address or
# website: the OMEN level of a string does not depend on what else the string looks like
TOOL_LISTS = [['love.com', 'mike@aol.com', 'key.net', 'monkey.com', 'password1', 'dragon12', 'love', 'mike', 'letmein', 'www.love.org', 'love.com', 'mike@aol.com'],
              ['bob@gmail.com'] * 3 + ['www.site.com', 'site.com', 'http://www.site.com', 'gmail', 'bobby1', 'site99', 'a.ru', 'x@y.org']]
TOOL_EXTRA = ['love.net', 'mike@love.com', 'key.com', 'dragon.ru', 'a.com', 'love', 'mike@aol', 'aol.com', 'www.love', 'site.org', 'bob@site.com', 'gmail.com1', 'LOVE.COM']


def shards(tier):
    return [('t', i, NSHARDS) for i in range(NSHARDS)] + [('tool', 0, 1)]


def run_tool(tier, acc):
    from . import c13
    tree.use()
    fel = tree.imp('lib_trainer.omen.evaluate_password').find_omen_level
    wd = tree.mkdtemp('pcfgmc-c11t-')
    for li, lines in enumerate(TOOL_LISTS):
        for ngram in (2, 3, 4):
            opts = dict(ngram=ngram, alphabet_size=40)
            acc.evals += 1
            case = {'layer': 'tool', 'lines': lines, 'opts': opts}
            ok, base, out, pi, cap = O.train_capture(wd, lines, **opts)
            if ok is not True or 'trainer' not in cap:
                acc.count('training_did_not_complete')
                continue
            sc = O.load_scorer_omen(base, 'utf-8')
            full = c13.make_scorer(base, limit=0, max_omen=9)
            if full is None:
                acc.fail(case, 'tool: the scorer cannot load the trained ruleset', 'tool-load')
                continue
            for cand in list(dict.fromkeys(lines + TOOL_EXTRA)):
                t = fel(cap['trainer'], cand)
                c = sc.parse(cand)
                r = full.parse(cand)
                if t != -1:
                    acc.nontrivial += 1
                if not (t == c == r[3]):
                    acc.fail(case, 'tool: string %r (classified %r by the scorer): trainer level %r, OmenScorer level %r, level reported by PCFGPasswordScorer.parse %r (ngram %d)'
                             % (cand, r[1], t, c, r[3], ngram), 'tool-disagree')
                    break
    acc.sample({'layer': 'tool', 'lists': TOOL_LISTS, 'extra_candidates': TOOL_EXTRA}, cap=1)
    tree.rmtree(wd)


def bounds(tier):
    return {'pool': [p if len(p) < 12 else '%s..(%d chars)' % (p[:4], len(p)) for p in POOL], 'list_size': '<= %d' % (3 if tier == 'thorough' else 2),
            'ngram': [2, 3, 4] + ([5] if tier == 'thorough' else []), 'alphabet_size': [2, 3, 10], 'candidate_alphabet': 'ab1Z + space', 'candidate_max_len': 'min(ngram+2, 6)'}


def check_training(wd, lines, opts, acc, want_keyspace=False):
    """returns (fails[(sig,msg)], info) ; info has everything C18 needs"""
    fel = tree.imp('lib_trainer.omen.evaluate_password').find_omen_level
    ok, base, out, pi, cap = O.train_capture(wd, lines, **opts)
    if ok is not True or 'trainer' not in cap:
        return None, None
    fails = []
    g = O.load_guesser_omen(base)
    if g is None:
        return [('load', 'guesser cannot load the OMEN files')], None
    try:
        sc = O.load_scorer_omen(base, opts.get('encoding', 'utf-8'))
    except Exception as e:
        return [('load', 'scorer cannot load the OMEN files: %r' % (e,))], None
    gm = O.GuesserModel(g)
    nontriv = 0
    for s in candidates(opts['ngram'], lines):
        t = fel(cap['trainer'], s)
        c = sc.parse(s)
        gl = gm.levels_of(s)
        gv = gl[0] if len(gl) == 1 else (-1 if not gl else tuple(gl))
        if t != -1:
            nontriv += 1
        if not (t == c == gv):
            fails.append(('disagree', 'string %r: trainer level %r, scorer level %r, guesser level %r' % (s, t, c, gv)))
            if len(fails) > 3:
                break
    # cross-check the reference guesser semantics against the real generator on the low levels
    emitted = {}
    shared = O.new_optimizer()      # one optimizer for all levels of a run, as PcfgGrammar uses it
    for L in range(0, 14 if len(lines) > 1000 else 7):      # the lists with a level-10 transition are followed past level 10
        try:
            outl, capped = O.emitted_at(g, L, cap=20000, optimizer=shared)
        except Exception as e:
            fails.append(('generator', 'MarkovCracker cannot be started on the trained model at level %d: %r' % (L, e)))
            break
        if capped:
            break
        emitted[L] = outl
        for s in outl[:2000]:
            if gm.levels_of(s) != [L]:
                fails.append(('generator', 'MarkovCracker emitted %r at level %d, reference level(s) %r' % (s, L, gm.levels_of(s))))
                break
    for s in candidates(opts['ngram'], lines):
        gl = gm.levels_of(s)
        if len(gl) == 1 and gl[0] in emitted and s not in emitted[gl[0]]:
            fails.append(('generator', 'string %r has level %d but MarkovCracker does not emit it there' % (s, gl[0])))
            break
    # per-level password counts
    rows = P.read_list(os.path.join(base, 'Omen', 'omen_pws_per_level.txt'), opts.get('encoding', 'utf-8'))
    got = Counter({int(v): int(p) for v, p in rows})
    mine = Counter()
    for s, n in Counter(lines).items():
        gl = gm.levels_of(s)
        mine[gl[0] if len(gl) == 1 else -1] += n
    if got != mine:
        fails.append(('pws_per_level', 'omen_pws_per_level.txt %r, levels at which the guesser generates the training passwords %r' % (dict(got), dict(mine))))
    info = {'base': base, 'cap': cap, 'g': g, 'gm': gm, 'emitted': emitted, 'nontrivial': nontriv}
    return fails, info


def run_shard(shard, tier, acc):
    if shard[0] == 'tool':
        return run_tool(tier, acc)
    _, si, ns = shard
    tree.use()
    wd = tree.mkdtemp('pcfgmc-c11-')
    for idx, (lines, opts) in enumerate(trainings(tier)):
        if idx % ns != si:
            continue
        acc.evals += 1
        fails, info = check_training(wd, lines, opts, acc)
        if fails is None:
            acc.count('training_did_not_complete')
            continue
        if info:
            acc.nontrivial += info['nontrivial']
        for sig, msg in fails[:3]:
            acc.fail({'runs': rle(lines), 'opts': opts}, '%r ngram=%d alphabet=%d: %s' % ([(w[:8], n) if n > 1 else w[:8] for w, n in rle(lines)][:12], opts['ngram'], opts['alphabet_size'], msg), sig)
        if idx % 211 == si and info:
            acc.sample({'training_list_runs': [[w[:24], n] for w, n in rle(lines)][:12], 'opts': opts, 'levels_emitted_sizes': {L: len(v) for L, v in info['emitted'].items()}}, cap=1)
    tree.rmtree(wd)


def replay(case):
    from ..runner import Acc
    if case.get('layer') == 'tool':
        acc = Acc()
        run_tool('quick', acc)
        fs = [f for f in acc.failures if f['case'].get('lines') == case.get('lines') and f['case'].get('opts') == case.get('opts')]
        return fs[0]['msg'] if fs else None
    tree.use()
    wd = tree.mkdtemp('pcfgmc-c11r-')
    fails, info = check_training(wd, unrle(case['runs']) if 'runs' in case else case['lines'], case['opts'], Acc())
    tree.rmtree(wd)
    return fails[0][1] if fails else None
