"""C10 — the OMEN generator enumerates each level exactly, independent of cache history.

Bounded-exhaustive over in-memory OMEN models (every assignment of levels from a small set to every
initial n-gram, transition and length over a 2-3 letter alphabet) x every target level, and E-hist over
histories of generators sharing one Optimizer (sequential ascending/descending sweeps, all ordered
pairs, interleaved generators stopped after every j)."""
import itertools
from collections import Counter

from .. import tree

ID = 'C10'
LEVEL = 'model_checking'
RULE = ('every OMEN model of the families in coverage.bounds x every target level 0..7 (0..20 / 0..30 on the families with expensive transitions) is enumerated by the real MarkovCracker until None and compared as a multiset '
        'with the reference level set (plain DFS over the model); histories: a state is (model, contents of the shared Optimizer as left by the operations so far, generator cursors), '
        'operations gen(L) to exhaustion and gen(L) paused after j guesses / resumed; all ordered pairs of levels and all pause points j on the history families; '
        'transitions = next_guess() calls; non-trivial = (model, level) whose level set has >= 2 strings')
ASSUMPTIONS = ['models are handed to MarkovCracker as in-memory dictionaries in the format load_rules produces (the loader itself is covered by C07/C11)',
               'models without any initial n-gram or any usable length below level 10 are outside (MarkovCracker refuses them)']
NSHARDS = 64
ABSENT = None


def build(m):
    """m: ngram, ip {ctx: lvl}, cp {ngram: lvl}, ln {total_len: lvl} -> guesser grammar dict + reference {level: Counter}"""
    n = m['ngram']
    g = {'max_level': 10, 'ngram': n, 'ip': {l: [] for l in range(11)}, 'ln': {l: [] for l in range(11)}, 'cp': {}}
    for k, l in m['ip'].items():
        g['ip'][l].append(k)
    for k, l in m['cp'].items():
        g['cp'].setdefault(k[:-1], {}).setdefault(l, []).append(k[-1])
    for total_len, l in sorted(m['ln'].items()):
        if total_len >= n:
            g['ln'][l].append(total_len - (n - 1))
    return g


def reference(m):
    n = m['ngram']
    succ = {}
    for k, l in m['cp'].items():
        succ.setdefault(k[:-1], []).append((k[-1], l))
    ref = {}
    for total_len, ll in m['ln'].items():
        if total_len < n:
            continue
        for ip, il in m['ip'].items():
            stack = [(ip, il + ll, total_len - (n - 1))]
            while stack:
                s, lvl, rem = stack.pop()
                if rem == 0:
                    ref.setdefault(lvl, Counter())[s] += 1
                    continue
                for ch, cl in succ.get(s[len(s) - (n - 1):], ()):
                    stack.append((s + ch, lvl + cl, rem - 1))
    return ref


def usable(m):
    return any(l < 10 for l in m['ip'].values()) and any(l < 10 for t, l in m['ln'].items() if t >= m['ngram'])


def models_ngram2(ip_vals, cp_vals, ln_vals, lengths, alphabet='ab'):
    ctxs = list(alphabet)
    grams = [a + b for a in alphabet for b in alphabet]
    for ipc in itertools.product(ip_vals, repeat=len(ctxs)):
        for cpc in itertools.product(cp_vals, repeat=len(grams)):
            for lnc in itertools.product(ln_vals, repeat=len(lengths)):
                m = {'ngram': 2,
                     'ip': {c: l for c, l in zip(ctxs, ipc) if l is not ABSENT},
                     'cp': {g: l for g, l in zip(grams, cpc) if l is not ABSENT},
                     'ln': {t: l for t, l in zip(lengths, lnc) if l is not ABSENT}}
                if usable(m):
                    yield m


def models_ngram3(ip_variants, cp_vals, ln_variants):
    ctxs = ['aa', 'ab', 'ba', 'bb']
    grams = [c + x for c in ctxs for x in 'ab']
    for ipc in ip_variants:
        for cpc in itertools.product(cp_vals, repeat=8):
            for lnc in ln_variants:
                m = {'ngram': 3,
                     'ip': {c: l for c, l in zip(ctxs, ipc) if l is not ABSENT},
                     'cp': {g: l for g, l in zip(grams, cpc) if l is not ABSENT},
                     'ln': {t: l for t, l in lnc.items()}}
                if usable(m):
                    yield m


def families(tier):
    fam = {}
    V = [0, 1, 2, ABSENT]
    # main family: n-gram 2, alphabet {a,b}, 1..3 transitions
    fam['ng2_main'] = (lambda: models_ngram2(V, V, V, [2, 3, 4]), 'levels')
    # level 10 entries (the start scan stops below max_level) and long strings crossing Optimizer.max_length = 4
    fam['ng2_long'] = (lambda: models_ngram2([0, 1], [0, 1, ABSENT], [0, ABSENT], [3, 6, 7]), 'levels')
    fam['ng2_lvl10'] = (lambda: models_ngram2([0, 10, ABSENT], [0, 2, 10], [0, 10], [2, 3]), 'levels')
    # expensive transitions and target levels above max_level (10): remaining budgets above 10 inside the search and the cache
    fam['ng2_high'] = (lambda: models_ngram2([0, 6], [0, 5, 6, ABSENT], [0, 1], [3, 4, 5]), 'levels', range(0, 21))
    fam['ng2_high10'] = (lambda: models_ngram2([0, 4], [1, 7, 10, ABSENT], [0], [3, 5]), 'levels', range(0, 31))
    # long strings whose transitions are all 0 or all 10: the largest reachable sums (10 per transition) and the levels just around them
    fam['ng2_all10_long'] = (lambda: models_ngram2([0, 10], [0, 10, ABSENT], [0], [6, 7]), 'levels', range(0, 82))
    # histories
    fam['ng2_hist'] = (lambda: models_ngram2([0, 1], [0, 1, 2, ABSENT], [0, 1], [3, 4]), 'pairs')
    # histories on models with a length of level 2 (the length walk has to step over an empty level 1, also in a generator that loaded a session)
    fam['ng2_hist_ln2'] = (lambda: models_ngram2([0, 1], [0, 1, ABSENT], [0, 2], [3, 4]), 'pairs')
    # four initial n-grams on ONE level, some of them without any continuation: positions inside a level's list of initial n-grams, saved as an index
    # by a generator and read back by another one
    fam['ng3_hist_ip4'] = (lambda: models_ngram3([(0, 0, 0, 0)], [0, 1, ABSENT], [{4: 0, 5: 1}]), 'pairs')
    # positions on level 10 (initial n-grams and lengths the trainer never saw): saved inside levels 10..22 and read back by another generator
    fam['ng2_save_lvl10'] = (lambda: models_ngram2([0, 10], [0, 1, ABSENT], [0, 10], [3, 4]), 'saveload', range(0, 23))
    if tier == 'thorough':
        fam['ng2_abc'] = (models_ngram2_abc, 'levels')
        fam['ng3'] = (lambda: models_ngram3([(0, 1, 1, ABSENT), (0, 0, 1, 2), (1, ABSENT, 0, 0)], [0, 1, ABSENT],
                                            [{3: 0, 4: 1, 5: 0}, {4: 0, 6: 1}, {3: 1, 5: 0, 7: 0}]), 'levels')
        fam['ng2_hist_long'] = (lambda: models_ngram2([0, 1], [0, 1, ABSENT], [0, 1], [5, 6]), 'pairs')
        fam['ng3_hist'] = (lambda: models_ngram3([(0, 1, 1, ABSENT)], [0, 1, ABSENT], [{4: 0, 5: 1}]), 'pairs')
    return fam


def models_ngram2_abc():
    # alphabet {a,b,c}: 9 transitions over {0,1,absent}, fixed ip/ln variants
    grams = [a + b for a in 'abc' for b in 'abc']
    for ipc in [{'a': 0, 'b': 1, 'c': 2}, {'a': 1, 'c': 0}]:
        for cpc in itertools.product([0, 1, ABSENT], repeat=9):
            for lnc in [{2: 0, 3: 1, 4: 0}, {3: 0, 5: 1}]:
                m = {'ngram': 2, 'ip': dict(ipc), 'cp': {g: l for g, l in zip(grams, cpc) if l is not ABSENT}, 'ln': dict(lnc)}
                yield m


def shards(tier):
    return [(name, i, NSHARDS) for name in families(tier) for i in range(NSHARDS)]


def bounds(tier):
    return {'families': sorted(families(tier)), 'target_levels': '0..7 (0..20, 0..30 and 0..81 on the high-level families)', 'alphabet': '{a,b} ({a,b,c} sub-sweep in thorough)',
            'ngram': '2 (3 in thorough)', 'level_values': '{0,1,2,absent} (+10 in ng2_lvl10)',
            'histories': 'fresh optimizer per level; one optimizer over levels ascending and descending; all ordered pairs (L1,L2) in 0..5; L1 paused after every j, L2 run, L1 resumed; L1 saved after every j, loaded into a new generator and finished'}


def drain(mc, cap=100000):
    out = []
    while True:
        s = mc.next_guess()
        if s is None:
            return out
        out.append(s)
        if len(out) > cap:
            out.append('<<RUNAWAY>>')
            return out


def cmp_level(out, ref, L):
    want = ref.get(L, Counter())
    got = Counter(out)
    if got == want:
        return None
    missing = sorted((want - got).elements())[:4]
    extra = sorted((got - want).elements())[:4]
    return 'level %d: missing %r, unexpected/duplicated %r (%d emitted, %d in the level)' % (L, missing, extra, len(out), sum(want.values()))


def explore_model(mods, m, mode, acc, counting=True, levels=None):
    MarkovCracker, Optimizer = mods
    fails = []
    g = build(m)
    ref = reference(m)
    levels = levels if levels is not None else range(0, 8)

    def gen(L, opt):
        return MarkovCracker(g, L, opt)
    try:
        # fresh optimizer per level
        for L in levels:
            out = drain(gen(L, Optimizer(max_length=4)))
            if counting:
                acc.states += 1
                acc.transitions += len(out) + 1
                if sum(ref.get(L, Counter()).values()) >= 2:
                    acc.nontrivial += 1
            msg = cmp_level(out, ref, L)
            if msg:
                fails.append(('fresh', 'fresh cache, ' + msg))
                break
        # one optimizer, ascending then descending
        for order, name in ((list(levels), 'ascending'), (list(reversed(levels)), 'descending')):
            opt = Optimizer(max_length=4)
            for L in order:
                out = drain(gen(L, opt))
                if counting:
                    acc.states += 1
                    acc.transitions += len(out) + 1
                msg = cmp_level(out, ref, L)
                if msg:
                    fails.append(('history', 'shared cache, levels generated %s up to %d: %s' % (name, L, msg)))
                    break
        if mode in ('pairs', 'saveload') and not fails:
            hl = range(0, 6) if mode == 'pairs' else levels
            for L1 in (hl if mode == 'pairs' else ()):
                n1 = sum(ref.get(L1, Counter()).values())
                for L2 in hl:
                    # sequential pair
                    opt = Optimizer(max_length=4)
                    o1 = drain(gen(L1, opt))
                    o2 = drain(gen(L2, opt))
                    if counting:
                        acc.states += 2
                        acc.transitions += len(o1) + len(o2) + 2
                    msg = cmp_level(o1, ref, L1) or cmp_level(o2, ref, L2)
                    if msg:
                        fails.append(('history', 'shared cache, gen(%d) then gen(%d): %s' % (L1, L2, msg)))
                        break
                    # interleaved: pause gen(L1) after j, run gen(L2), resume gen(L1)
                    for j in range(1, n1):
                        opt = Optimizer(max_length=4)
                        a = gen(L1, opt)
                        part = [a.next_guess() for _ in range(j)]
                        o2 = drain(gen(L2, opt))
                        rest = drain(a)
                        if counting:
                            acc.states += 3
                            acc.transitions += len(part) + len(o2) + len(rest) + 2
                        msg = cmp_level(part + rest, ref, L1) or cmp_level(o2, ref, L2)
                        if msg:
                            fails.append(('history', 'shared cache, gen(%d) paused after %d, gen(%d) run, gen(%d) resumed: %s' % (L1, j, L2, L1, msg)))
                            break
                    if fails:
                        break
                if fails:
                    break
            # one more kind of history: the generator is saved after j guesses (what a quit does), and a NEW generator - built for level 1, as
            # restore_omen builds it - loads the session and finishes the level: both parts together are the level
            if not fails:
                import os
                spath = os.path.join(tree.tmp_root(), 'pcfgmc-c10-%d.omn' % os.getpid())
                for L1 in hl:
                    n1 = sum(ref.get(L1, Counter()).values())
                    for j in range(1, n1):
                        a = gen(L1, Optimizer(max_length=4))
                        part = [a.next_guess() for _ in range(j)]
                        a.save_session(spath)
                        # (on a grammar of its own: the process that resumes has loaded the ruleset anew; whatever the first generator did to its tables is gone)
                        b = MarkovCracker(build(m), 1, Optimizer(max_length=4))
                        b.load_session(spath, {'pt': [['M', 0, 0]], 'prob': 0.5, 'level': 0})
                        rest = drain(b)
                        if counting:
                            acc.states += 2
                            acc.transitions += len(part) + len(rest) + 1
                        msg = cmp_level(part + rest, ref, L1)
                        if msg:
                            fails.append(('history', 'gen(%d) saved after %d guesses, loaded into a new generator and finished: %s' % (L1, j, msg)))
                            break
                    if fails:
                        break
                try:
                    os.unlink(spath)
                except OSError:
                    pass
    except RecursionError:
        fails.append(('raise', 'RecursionError'))
    except Exception as e:   # noqa
        fails.append(('raise', 'generator raised %r' % (e,)))
    return fails


def format_probe():
    """The models of this check are built in memory in the format the real loader returns.  Before anything is explored one probe model is written to
    disk, loaded with the real loader and compared with its in-memory twin: if the loader's format has changed, the in-memory models would no longer
    be inputs the generator can meet, and the check says so (harness error) instead of reporting what the generator does with them."""
    import contextlib
    import io
    import os
    from .. import rulesets as R
    probe = {'ngram': 2, 'ip': {'a': 0, 'b': 2}, 'cp': {'aa': 1, 'ab': 0, 'ba': 0, 'bb': 2}, 'ln': {1: 10, 2: 0, 3: 1, 4: 0}}
    d = tree.mkdtemp('pcfgmc-c10p-')
    R.write_omen(os.path.join(d, 'Omen'), {'ngram': 2, 'alphabet': ['a', 'b'], 'ip': probe['ip'], 'ep': {'a': 0, 'b': 0}, 'cp': probe['cp'], 'ln': [10, 0, 1, 0]})
    lr = tree.imp('lib_guesser.omen.input_file_io').load_rules
    g = {}
    with contextlib.redirect_stdout(io.StringIO()), contextlib.redirect_stderr(io.StringIO()):
        ok = lr(os.path.join(d, 'Omen'), g)
    tree.rmtree(d)
    mine = build(probe)
    if not ok:
        raise RuntimeError('harness: the real OMEN loader does not load the probe model')

    def norm(t):
        return {k: sorted(v) for k, v in t.items() if v} if hasattr(t, 'items') else t
    for key in ('ngram', 'max_level'):
        if g.get(key) != mine.get(key):
            raise RuntimeError('harness: loader format changed (%s: %r, in-memory models have %r)' % (key, g.get(key), mine.get(key)))
    for key in ('ip', 'ln'):
        if type(g.get(key)) is not type(mine[key]) or norm(g[key]) != norm(mine[key]):
            raise RuntimeError('harness: loader format changed (%s: loader gives %r, in-memory models have %r)' % (key, g.get(key), mine[key]))
    if type(g.get('cp')) is not dict or any(type(v) is not dict for v in g['cp'].values()) or {k: norm(v) for k, v in g['cp'].items()} != {k: norm(v) for k, v in mine['cp'].items()}:
        raise RuntimeError('harness: loader format changed (cp: loader gives %r, in-memory models have %r)' % (g.get('cp'), mine['cp']))


def run_shard(shard, tier, acc):
    name, si, ns = shard
    tree.use()
    if si == 0:
        format_probe()
    mods = (tree.imp('lib_guesser.omen.markov_cracker').MarkovCracker, tree.imp('lib_guesser.omen.optimizer').Optimizer)
    fam = families(tier)[name]
    gen, mode = fam[0], fam[1]
    levels = fam[2] if len(fam) > 2 else None
    for idx, m in enumerate(gen()):
        if idx % ns != si:
            continue
        acc.evals += 1
        fails = explore_model(mods, m, mode, acc, levels=levels)
        if idx % 200 == 0 or fails:
            f2 = explore_model(mods, m, mode, acc, counting=False, levels=levels)
            acc.validated += 1
            if f2 != fails:
                fails.append(('nondeterministic', 'two explorations of the same model differ'))
        for sig, msg in fails:
            acc.fail({'model': m, 'mode': mode, 'levels': [levels[0], levels[-1]] if levels else None}, msg, sig)
        if idx % 5003 == si:
            ref = reference(m)
            acc.sample({'family': name, 'model': m, 'level_sizes': {L: sum(c.values()) for L, c in sorted(ref.items())}}, cap=1)


def replay(case):
    from ..runner import Acc
    tree.use()
    mods = (tree.imp('lib_guesser.omen.markov_cracker').MarkovCracker, tree.imp('lib_guesser.omen.optimizer').Optimizer)
    m = case['model']
    m = {'ngram': m['ngram'], 'ip': dict(m['ip']), 'cp': dict(m['cp']), 'ln': {int(k): v for k, v in m['ln'].items()}}
    lv = case.get('levels')
    fails = explore_model(mods, m, case.get('mode', 'pairs'), Acc(), levels=range(lv[0], lv[1] + 1) if lv else None)
    return fails[0][1] if fails else None
