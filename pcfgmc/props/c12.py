"""C12 — the guess stream does not depend on thread timing or on standard input.

Stateless schedule exploration (pcfgmc.sched) of the real keypress thread against the real generation
loop, iteratively preemption bounded, crossed with scripted answers of input()."""
import os
import sys
from collections import Counter

from .. import tree
from .. import rulesets as R
from .. import session as S
from .. import sched as E
from . import queue_disk as D
from . import c15
from . import status_common as ST

ID = 'C12'
LEVEL = 'model_checking'
RULE = ('every interleaving of the keyboard thread with the generation loop at the scheduling points listed in pcfgmc/sched.py, with at most B preemptions '
        '(sleep() is a free yield), for every input() script of the alphabet {"", h, q, EOF, ERR, BLOCK, S!k (stderr fails at the k-th write of the status report)} up to length 2 (3 in thorough), for a fresh session and for a session '
        'resumed inside a Markov level; every execution runs to completion; oracle: without a write of should_exit the stream is the complete uninterrupted stream; '
        'executions are grouped by the quit moment (main-loop position at the write): within a group stdout and saved files are identical, the cut is a pre-terminal boundary or between '
        'two Markov guesses, and resuming from the saved files completes the stream (nothing of the uninterrupted stream is missing from quit run + resumed run); states = scheduling points visited, transitions = scheduler decisions; '
        'clock layer (sequential): the same keypress()/StatusReport body after every guess position under every combination of 0/1/2 days, hours, minutes, seconds of elapsed time; '
        'non-trivial = execution in which the keyboard thread ran between two main-loop points (not only before the first / after the last)')
ASSUMPTIONS = ['locks: threading.Lock / RLock objects created by lib_guesser code are scheduler locks (acquire / release are scheduling points, a wait nobody can end is reported as a deadlock); other primitives (Condition, Event, ...) are not modelled and make the run fail loudly',
               'between two scheduling points neither thread touches state the other writes; accesses inside one bytecode are atomic under the GIL',
               'input() behaviour under each stdin condition is modelled by the script alphabet (tty/open pipe = BLOCK, /dev/null or pipe at EOF = EOF, closed = ERR); a handful of real-subprocess confirmations are in the thorough tier',
               'every 10th execution and every failing one is re-run from its recorded choice list and must reproduce identical observations']

OMEN = c15.omen(c15.OMEN_X, [(1, .375), (2, .325)])


# the same model with both levels at one probability: they share ONE Markov pre-terminal, and the window between the last guess of level 1
# and the first guess of level 2 is a moment at which a quit can arrive without any level noticing it
OMEN_TIED = c15.omen(c15.OMEN_X, [(1, .375), (2, .375)])


def the_spec(tied=False):
    spec = dict(D.TERMINALS[0])
    spec.update(grammar=[('D1', .5), ('M', .4), ('D2', .1)], prince=D.PRINCE, omen=OMEN_TIED if tied else OMEN)
    return spec


def scripts(tier):
    base = [['BLOCK'], ['EOF'], ['ERR'], ['q'], [''], ['h'], ['S!'],
            ['', 'q'], ['', 'EOF'], ['h', 'q'], ['h', 'EOF'], ['S!', 'q'], ['', ''], ['', 'ERR'], ['h', 'h']]
    # stderr failing at a later write of the status report (after the report has set up whatever it sets up)
    base += [['S!2'], ['S!4'], ['S!9'], ['S!4', 'q']]
    # lines that are neither empty nor a command: a blank, the '\r' that an [ENTER] sent with a Windows line end leaves behind - status requests
    base += [[' '], ['\r']]
    if tier == 'thorough':
        base += [['', '', 'q'], ['', 'h', 'EOF'], ['h', '', 'q'], ['', 'S!', 'q'], ['x'], ['\t'], [' ', 'q']] + [['S!%d' % k] for k in (3, 5, 6, 7, 8, 10, 11, 12, 13)]
    return base


def shards(tier):
    sh = [(scen, i) for scen in ('fresh', 'resumed') for i in range(len(scripts(tier)))]
    sh += [('tied', i) for i, sc in enumerate(scripts(tier)) if 'q' in sc and 'h' not in sc]
    return sh + [('subprocess', 0)] + ST.shards() + ST.line_shards(tier)


def bounds(tier):
    return {'preemption_bound_completed': 2 if tier == 'quick' else '3 (2 for scripts with a help request)', 'scripts': scripts(tier),
            'scenarios': ['fresh session', 'session resumed inside a Markov level (status request can see the placeholder item)',
                          'fresh session on a ruleset whose two Markov levels are tied in one pre-terminal (scripts with a quit)'],
            'ruleset': 'D1(2 groups) / M (2 levels of 3 strings) / D2: 5 pre-terminals, 10 guesses', **ST.bounds(tier),
            'line_layer': {'delivery': 'at every line boundary of the generating thread inside lib_guesser (about 1 000 and 2 400 per fresh run, the same again for the resumed run)', 'scripts': ST.LINE_SCRIPTS[:1] if tier == 'quick' else ST.LINE_SCRIPTS,
                           'sessions': ['fresh', 'resumed'], 'rulesets': 2}}


def boundaries(events, n_prefix=0):
    """valid cut positions in the stdout of a run: pre-terminal boundaries and every position inside a Markov pre-terminal"""
    ok = {0}
    pos = n_prefix
    for i in range(0, n_prefix + 1):
        ok.add(i)
    for e in events:
        if e[0] != 'pt':
            continue
        pt, n = e[1], e[2]
        if pt[0][0][0] == 'M':
            for k in range(1, n + 1):
                ok.add(pos + k)
        pos += n
        ok.add(pos)
    return ok


def run_subprocess(acc):
    """Seam 5: the real process boundary.  stdin = /dev/null, closed, pipe at EOF, pipe held open (tty stand-in)."""
    import subprocess
    spec = the_spec()
    td = tree.scratch_tree()
    R.write_ruleset(os.path.join(td, 'Rules', 'v'), spec)
    U = S.run_guesser(td, ['-r', 'v'])
    S.clear_session(td)
    cmd = [sys.executable, '-B', os.path.join(td, 'pcfg_guesser.py'), '-r', 'v']
    # stdout of the child is a pipe: with the interpreter's default buffering (what `pcfg_guesser | hashcat` runs with) and unbuffered
    env_default = {k: v for k, v in os.environ.items() if k != 'PYTHONUNBUFFERED'}
    env_default['PYTHONHASHSEED'] = '1'
    env_unbuf = dict(env_default, PYTHONUNBUFFERED='1')
    env = env_default
    # (... limited: the run ends because -n was reached, which is another way out of the generation loop than an empty queue)
    # (... oldsav: a new session is started - no --load - while the save file of an earlier session of the same name, quit by the user after a
    # few guesses, is still there)
    conds = ['devnull', 'closed', 'pipe_eof', 'pipe_open', 'pipe_status_then_eof', 'pipe_open unbuffered', 'pipe_eof unbuffered',
             'pipe_open limited', 'devnull limited', 'pipe_open limited unbuffered', 'devnull oldsav', 'pipe_eof oldsav', 'pipe_open oldsav', 'closed oldsav']
    base_cmd = cmd
    Q0 = S.run_guesser(td, ['-r', 'v'], quit_after=3)
    old_sav, old_omn = Q0.sav_raw, Q0.omn
    S.clear_session(td)
    for cond in conds:
        acc.evals += 1
        kw = {}
        if ' oldsav' in cond:
            if old_sav is None:
                acc.count('no_old_save_file_for_the_oldsav_conditions')
                continue
            S.set_session(td, old_sav, old_omn)
        env = env_unbuf if cond.endswith(' unbuffered') else env_default
        label = cond + ('' if cond.endswith(' unbuffered') else ' (default output buffering)')
        limited = ' limited' in cond
        nlim = max(1, len(U.stdout) // 2)
        cmd = base_cmd + (['-n', str(nlim)] if limited else [])
        want = U.stdout[:nlim] if limited else U.stdout
        cond = cond.split(' ')[0]
        if cond == 'devnull':
            p = subprocess.Popen(cmd, stdin=subprocess.DEVNULL, stdout=subprocess.PIPE, stderr=subprocess.DEVNULL, env=env)
        elif cond == 'closed':
            p = subprocess.Popen(cmd, stdin=None, stdout=subprocess.PIPE, stderr=subprocess.DEVNULL, env=env, preexec_fn=lambda: os.close(0))
        else:
            p = subprocess.Popen(cmd, stdin=subprocess.PIPE, stdout=subprocess.PIPE, stderr=subprocess.DEVNULL, env=env)
            if cond == 'pipe_eof':
                p.stdin.close()
            elif cond == 'pipe_status_then_eof':
                p.stdin.write(b'\nh\n')
                p.stdin.close()
        import threading as _th0
        got = {}
        rd = _th0.Thread(target=lambda: got.__setitem__('out', p.stdout.read()), daemon=True)     # for pipe_open stdin is held open by us all along
        rd.start()
        try:
            p.wait(60)
        except subprocess.TimeoutExpired:
            p.kill()
            rd.join(10)
            n_out = len((got.get('out') or b'').split(b'\n')) - 1
            acc.fail({'scenario': 'subprocess', 'stdin': label}, 'real process with stdin=%s did not end within 60 s of being started (%d of %d lines had reached its standard output by then)'
                     % (label, n_out, len(want)), 'subprocess-hang')
            continue
        finally:
            if cond == 'pipe_open':
                try:
                    p.stdin.close()
                except Exception:
                    pass
        rd.join(30)
        out = got.get('out') or b''
        lines = out.decode('utf-8').split('\n')
        if lines and lines[-1] == '':
            lines.pop()
        acc.nontrivial += 1
        if lines != want:
            acc.fail({'scenario': 'subprocess', 'stdin': label},
                     'real process with stdin=%s wrote %d lines, the %s stream has %d' % (label, len(lines), 'limited' if limited else 'uninterrupted', len(want)), 'cut-without-quit')
        S.clear_session(td)
    # a status request and a quit that arrive in ONE chunk on a pipe that stays open (typed ahead, or written by a front end): both are acted on.
    # The ruleset is large enough (60^4 single-guess pre-terminals) for the quit to arrive long before the stream ends.
    big = dict(D.TERMINALS[0])
    vals = [('%02d' % i, 0.9 ** i) for i in range(60)]
    tot = sum(p for _, p in vals)
    big['D'] = {2: [(v, p / tot) for v, p in vals]}
    big.update(grammar=[('D2D2D2D2', 1.0)], prince=D.PRINCE, omen=OMEN)
    R.write_ruleset(os.path.join(td, 'Rules', 'big'), big)
    for chunk in (b'\nq\n', b'h\n\nq\n'):
        acc.evals += 1
        acc.nontrivial += 1
        S.clear_session(td)
        case = {'scenario': 'subprocess', 'stdin': 'pipe_open, %r written at once' % chunk.decode()}
        p = subprocess.Popen([sys.executable, '-B', os.path.join(td, 'pcfg_guesser.py'), '-r', 'big'], stdin=subprocess.PIPE, stdout=subprocess.PIPE, stderr=subprocess.PIPE, env=env)
        p.stdin.write(chunk)
        p.stdin.flush()
        import threading as _th
        res = {}

        def reader():
            res['out'] = p.stdout.read()
        t1 = _th.Thread(target=reader, daemon=True)
        t1.start()
        res['err'] = b''
        t2 = _th.Thread(target=lambda: res.__setitem__('err', p.stderr.read()), daemon=True)
        t2.start()
        try:
            p.wait(120)
        except subprocess.TimeoutExpired:
            p.kill()
            acc.fail(case, 'a quit typed right behind a status request (one chunk %r on an open pipe) was not acted on within 120 s: the process kept generating' % chunk.decode(), 'quit-request-dropped')
            continue
        finally:
            try:
                p.stdin.close()
            except Exception:
                pass
        t1.join(30)
        t2.join(30)
        lines = res.get('out', b'').decode('utf-8').split('\n')
        if lines and lines[-1] == '':
            lines.pop()
        errtxt = res.get('err', b'').decode('utf-8', 'replace')
        if 'Exit command received' not in errtxt or not os.path.exists(os.path.join(td, 'default_run.sav')):
            acc.fail(case, 'chunk %r on an open pipe: the process ended after %d guesses without acknowledging the quit / saving the session' % (chunk.decode(), len(lines)), 'quit-request-dropped')
            continue
        S.clear_session(td)
        ref = S.run_guesser(td, ['-r', 'big', '-n', str(max(1, len(lines)))])
        if lines and ref.stdout[:len(lines)] != lines:
            acc.fail(case, 'chunk %r on an open pipe: the %d lines written before the quit are not the first lines of the stream' % (chunk.decode(), len(lines)), 'altered')
    acc.sample({'scenario': 'subprocess', 'stdin_conditions': conds + ['pipe_open with status+quit in one chunk'], 'lines': len(U.stdout)}, cap=1)
    tree.rmtree(td)


def run_shard(shard, tier, acc):
    if shard[0] == 'status':
        return ST.run(shard, tier, acc)
    if shard[0] == 'lines':
        return ST.run_lines(shard, tier, acc)
    scen, si = shard
    if scen == 'subprocess':
        return run_subprocess(acc)
    script = scripts(tier)[si]
    # the help text alone is ~80 stderr writes (= scheduling points): scripts containing 'h' stay at bound 2 in the thorough tier
    bound = 3 if (tier == 'thorough' and 'h' not in script) else 2
    spec = the_spec(tied=(scen == 'tied'))
    td = tree.scratch_tree()
    R.write_ruleset(os.path.join(td, 'Rules', 'v'), spec)
    lab, pts = c15.labelled_language(spec)
    S.clear_session(td)
    start_sav = start_omn = None
    remainder0 = Counter()
    argv = ['-r', 'v']
    if scen == 'resumed':
        A = S.run_guesser(td, ['-r', 'v'], quit_after=2)      # inside Markov level 1 (3 strings): 1 string owed
        start_sav, start_omn = A.sav_raw, A.omn
        argv = ['-r', 'v', '--load']
        owed = pts[lab[A.stdout[-1]]][1] - Counter(l for l in A.stdout if lab[l] == lab[A.stdout[-1]])
        remainder0 = owed
    S.set_session(td, start_sav, start_omn)
    U = S.run_guesser(td, argv)
    if U.exc:
        raise RuntimeError('harness: reference run failed: ' + U.exc)
    valid = boundaries(U.events, sum(remainder0.values()))
    groups = {}
    outcomes = {}
    case0 = {'scenario': scen, 'script': script}
    count = [0]

    def observe(o):
        return (tuple(o.run.stdout), c15.canon_state(o.run), o.exit_write, o.run.exc, tuple(o.labels))

    def run_fn(prefix):
        S.set_session(td, start_sav, start_omn)
        return E.run_scheduled(td, argv, script, prefix)

    def on_exec(o):
        count[0] += 1
        acc.evals += 1
        acc.states += len(o.points)
        acc.transitions += sum(1 for p in o.points if len(p.enabled) > 1)
        kb_points = [i for i, p in enumerate(o.points) if p.tid == 1]
        if kb_points and 0 < kb_points[0] and any(p.tid == 0 and p.label != 'thread_start' for p in o.points[:kb_points[0]]) \
                and any(p.tid == 0 for p in o.points[kb_points[0]:]):
            acc.nontrivial += 1
        case = dict(case0, choices=o.choices)
        fails = []
        out = o.run.stdout
        if o.run.exc and o.run.exc.startswith('Deadlock'):
            fails.append(('deadlock', 'the generation loop can never continue (input script %r, %d guesses printed): %s' % (script, len(out), o.run.exc)))
        elif o.run.exc:
            fails.append(('crash', 'generation loop raised %s' % o.run.exc.strip().splitlines()[-1]))
        elif o.exit_write is None and (o.q_dropped or ('q' in o.consumed and o.kb_natural_end and not o.thread_exc)):
            fails.append(('quit-request-dropped', 'the user typed q (answers consumed: %r) and the keyboard thread finished handling it, but the quit flag was never set: '
                          'the run emitted %d guesses and saved nothing' % (o.consumed, len(out))))
        elif o.exit_write is None:
            if out != U.stdout:
                why = 'thread died with %s' % o.thread_exc if o.thread_exc else ('status print failed' if any(a.startswith('S!') for a in script) else 'thread ended')
                fails.append(('cut-without-quit', 'no quit was requested (input script %r, %s) but the stream stops after %d of %d guesses'
                              % (script, why, len(out), len(U.stdout))))
        else:
            if not o.exit_after_q:
                fails.append(('quit-without-request', 'the quit flag was set although the user never typed q (answers consumed: %r)' % (o.consumed,)))
            if out != U.stdout[:len(out)]:
                fails.append(('altered', 'stream %r is not a prefix of the uninterrupted stream' % (out[-3:],)))
            elif len(out) not in valid:
                fails.append(('cut-inside-preterminal', 'explicit quit cut the stream after %d guesses, inside a dictionary pre-terminal' % len(out)))
            key = o.exit_write[0]
            sig = (tuple(out), c15.canon_state(o.run))
            if key in groups and groups[key][0] != sig:
                fails.append(('schedule-dependent-cut',
                              'two schedules with the same quit moment (main-loop position %d, %d guesses printed) give different results: %d vs %d guesses (choices %r vs %r)'
                              % (key, o.exit_write[1], len(out), len(groups[key][0][0]), o.choices, groups[key][1])))
            groups.setdefault(key, (sig, o.choices))
            if not fails and len(out) < len(U.stdout):
                outcomes.setdefault(sig, (o.run.sav_raw, o.run.omn, list(out), o.choices))
        if count[0] % 10 == 0 or fails:
            o2 = run_fn(o.choices)
            acc.validated += 1
            if observe(o2) != observe(o):
                raise RuntimeError('harness: replaying choices %r gave different observations' % (o.choices,))
        for sig, msg in fails:
            acc.fail(case, '[%s, script %r] %s' % (scen, script, msg), sig)
        if count[0] == 7:
            acc.sample({'scenario': scen, 'script': script, 'choices': o.choices, 'trace': ['%d:%s' % l for l in o.labels], 'stdout': out}, cap=1)

    nexec, capped = E.explore(run_fn, bound, on_exec)
    acc.count('schedules', nexec)
    acc.count('quit_moments', len(groups))
    # (iii) every distinct outcome of an explicit quit must be resumable to the complete stream
    n0 = sum(remainder0.values())
    for sig, (sav_raw, omn, out, choices) in outcomes.items():
        if sav_raw is None:
            acc.fail(dict(case0, choices=choices), '[%s, script %r] explicit quit after %d guesses left no save file' % (scen, script, len(out)), 'nosave')
            continue
        if n0 and len(out) <= n0:
            rem = remainder0 - Counter(out)
        else:
            tail = out[n0:]
            rem = Counter()
            cur = lab.get(tail[-1]) if tail else None
            if cur is not None and cur[0][0] == 'M':
                here = Counter()
                k = len(tail) - 1
                while k >= 0 and lab.get(tail[k]) == cur:
                    here[tail[k]] += 1
                    k -= 1
                rem = pts[cur][1] - here
        S.set_session(td, sav_raw, omn)
        B = S.run_guesser(td, ['-r', 'v', '--load'])
        acc.evals += 1
        if B.exc:
            acc.fail(dict(case0, choices=choices), 'resume raised %s' % B.exc.strip().splitlines()[-1], 'crash')
            continue
        p = float(S.canonical_sav(sav_raw)['guessing_info.max_probability'])
        # what was emitted before the cut must not be needed again; what follows must be complete
        msgs = c15.check_resumed(B.stdout, rem, p, lab, pts, 'the run resumed after the quit (choices %r)' % (choices,))
        # nothing of the uninterrupted stream may fall between the two runs (a pre-terminal dropped at the moment of the quit shows only here:
        # its probability lies above the saved position, so the resumed run alone looks complete)
        have = set(out) | set(B.stdout)
        lost = [l for l in U.stdout if l not in have]
        if lost:
            msgs = list(msgs) + ['lost-across-quit: %d guesses of the uninterrupted stream appear neither before the quit (after %d guesses) nor in the resumed run, e.g. %r (choices %r)'
                                 % (len(lost), len(out), lost[:4], choices)]
        for m in msgs:
            acc.fail(dict(case0, choices=choices), '[%s, script %r] %s' % (scen, script, m), 'resume:' + m.split(':', 1)[0])
    if capped:
        acc.capped = True
    tree.rmtree(td)


def replay(case):
    if case.get('layer') in ('status', 'lines'):
        return ST.replay(case)
    if case['scenario'] == 'subprocess':
        from ..runner import Acc
        acc = Acc()
        run_subprocess(acc)
        fs = [f for f in acc.failures if f['case']['stdin'] == case['stdin']]
        return fs[0]['msg'] if fs else None
    spec = the_spec(tied=(case['scenario'] == 'tied'))
    td = tree.scratch_tree()
    R.write_ruleset(os.path.join(td, 'Rules', 'v'), spec)
    argv = ['-r', 'v']
    start_sav = start_omn = None
    if case['scenario'] == 'resumed':
        A = S.run_guesser(td, ['-r', 'v'], quit_after=2)
        start_sav, start_omn = A.sav_raw, A.omn
        argv = ['-r', 'v', '--load']
    S.set_session(td, start_sav, start_omn)
    U = S.run_guesser(td, argv)
    S.set_session(td, start_sav, start_omn)
    o = E.run_scheduled(td, argv, case['script'], case['choices'])
    msg = None
    out = o.run.stdout
    if o.run.exc:
        msg = 'crash: ' + o.run.exc
    elif o.exit_write is None and out != U.stdout:
        msg = 'no quit requested but stream has %d of %d guesses (thread exception %s)' % (len(out), len(U.stdout), o.thread_exc)
    elif o.exit_write is not None:
        if out != U.stdout[:len(out)]:
            msg = 'stream %r is not a prefix of the uninterrupted stream' % (out[-3:],)
        elif o.run.sav_raw is None:
            msg = 'explicit quit after %d guesses left no save file' % len(out)
        elif len(out) < len(U.stdout):
            # the two runs together must give the whole stream
            S.set_session(td, o.run.sav_raw, o.run.omn)
            B = S.run_guesser(td, ['-r', 'v', '--load'])
            have = set(out) | set(B.stdout)
            lost = [l for l in U.stdout if l not in have]
            if B.exc:
                msg = 'resume raised %s' % B.exc.strip().splitlines()[-1]
            elif lost:
                msg = 'lost-across-quit: %d guesses appear neither before the quit (after %d guesses) nor in the resumed run, e.g. %r' % (len(lost), len(out), lost[:4])
    tree.rmtree(td)
    return msg
