"""Shared by C09 and C12: the status / help / quit request under every class of clock value.

The keyboard thread's body (the real keypress() function with the real StatusReport) is run synchronously right after
the j-th guess, with the session clock set to T seconds.  T ranges over every combination of 0 / 1 / 2 days, hours,
minutes and seconds (each field of the elapsed-time print has a zero, a singular and a plural branch), j over every
guess position, on a fresh session and on a session resumed inside a Markov level (placeholder status item, saved
running time added to the clock).  Whatever the request prints, stdout must stay the guess stream."""
import itertools
import os
import re

from .. import tree
from .. import rulesets as R
from .. import session as S
from . import c15

SCRIPTS = [[''], ['h'], ['', ''], ['q']]
UNITS = (86400, 3600, 60, 1)


def clocks(tier):
    reps = (0, 1, 2) if tier == 'quick' else (0, 1, 2, 23)
    out = []
    for combo in itertools.product(reps, repeat=4):
        out.append(sum(c * u for c, u in zip(combo, UNITS)) + (0.25 if combo[3] == 2 else 0))
    return sorted(set(out))


def the_specs():
    sp = c15.specs('quick')
    # third ruleset: pre-terminals with several transitions and several values per transition (A1 C1 D1), so that a request can arrive while
    # the generation loop is in the middle of such a pre-terminal and still holds its parse tree
    multi = dict(c15.D.TERMINALS[0])
    multi.update(grammar=[('A1D1', .6), ('M', .4)], prince=c15.D.PRINCE, omen=c15.omen(c15.OMEN_X, [(1, .5), (2, .25)]), name='multi-transition pre-terminals')
    return [sp[1], sp[5], multi]


REDUCED_CLOCK = {2}      # indices of the rulesets that are run under a few clock values only


def shards():
    return [('status', i, k) for i in range(len(the_specs())) for k in range(len(SCRIPTS))]


def bounds(tier):
    return {'status_layer': {'clock_values': len(clocks(tier)), 'scripts': SCRIPTS, 'positions': 'every guess position',
                             'sessions': ['fresh', 'resumed inside a Markov level with saved running time 0 s / 1 day 1 h / 2 days 7 h']}}


def run(shard, tier, acc):
    _, i, k = shard
    spec = the_specs()[i]
    script = SCRIPTS[k]
    td = tree.scratch_tree()
    R.write_ruleset(os.path.join(td, 'Rules', 'v'), spec)
    S.clear_session(td)
    U = S.run_guesser(td, ['-r', 'v'])
    if U.exc:
        raise RuntimeError('harness: reference run failed: ' + U.exc)
    A = S.run_guesser(td, ['-r', 'v'], quit_after=2)
    sessions = [('fresh', None, None, ['-r', 'v'], U.stdout)]
    for saved in (0, 90000, 200000):
        sav = re.sub(r'(?m)^running_time = .*$', 'running_time = %d' % saved, A.sav_raw)
        S.set_session(td, sav, A.omn)
        RU = S.run_guesser(td, ['-r', 'v', '--load'])
        if RU.exc:
            raise RuntimeError('harness: resumed reference run failed: ' + RU.exc)
        sessions.append(('resumed with %d s on the clock' % saved, sav, A.omn, ['-r', 'v', '--load'], RU.stdout))
    for name, sav, omn, argv, ref in sessions:
        ts = clocks(tier) if sav is None else [0.0, 61.0, 86400.0 + 3661, 2 * 86400.0 + 2 * 3661]
        if i in REDUCED_CLOCK:
            ts = [0.0, 2 * 86400.0 + 2 * 3661]
        for T in ts:
            for j in range(1, len(ref) + 1):
                S.set_session(td, sav, omn)
                r = S.run_guesser(td, argv, keys=(j, script, T))
                acc.evals += 1
                case = {'layer': 'status', 'spec': i, 'script': script, 'session': name, 'clock': T, 'after_guess': j}
                if getattr(r, 'kb_blocked', False):
                    # the request needed a lock the generating thread holds at this point: it would be served later, which is another position
                    acc.count('requests_that_would_have_waited_for_a_lock')
                    continue
                if r.exc:
                    acc.fail(case, 'status request %r after guess %d (%s, clock %r s) made the run fail: %s' % (script, j, name, T, r.exc.strip().splitlines()[-1]), 'status-crash')
                    continue
                if 'Status Report' in r.stderr or 'generating guesses yet' in r.stderr:
                    acc.nontrivial += 1
                else:
                    acc.count('status_request_without_report')
                if 'q' in script and 'Exit command received' not in r.stderr:
                    # whatever the status report does with the clock, the quit typed with it has to be acted on
                    acc.fail(case, 'quit request %r after guess %d (%s, clock %r s): the keyboard body ended without acknowledging the quit (%d of %d guesses written, stderr tail %r)'
                             % (script, j, name, T, len(r.stdout), len(ref), r.stderr.strip().splitlines()[-2:]), 'quit-request-dropped')
                    continue
                want = ref if 'q' not in script else ref[:len(r.stdout)]
                if r.stdout != want or ('q' in script and len(r.stdout) < j):
                    bad = [l for l in r.stdout if l not in ref][:3]
                    acc.fail(case, 'status request %r after guess %d (%s, clock %r s): stdout is no longer the guess stream; foreign lines %r, %d lines instead of %d'
                             % (script, j, name, T, bad, len(r.stdout), len(want)), 'status-on-stdout')
    acc.sample({'layer': 'status', 'script': script, 'clock_values': clocks(tier)[:6]}, cap=1)
    tree.rmtree(td)


LINE_SCRIPTS = [[''], ['h'], ['', ''], ['q']]
LINE_PARTS = 8


def line_shards(tier):
    if tier == 'quick':
        combos = [(0, 0), (2, 0), (0, 3)]
    else:
        combos = [(i, k) for i in (0, 2) for k in range(len(LINE_SCRIPTS))]
    return [('lines', i, k, part) for i, k in combos for part in range(LINE_PARTS)]


def run_lines(shard, tier, acc):
    """The same request, but delivered at EVERY line boundary the generating thread passes inside lib_guesser (in the middle of building a guess, of a
    queue operation, of the restore walk): the schedule in which the main thread is preempted there and the keyboard thread runs until it blocks.
    What the status thread touches while it reports must not be something the generation loop is in the middle of using."""
    _, i, k, part = shard
    spec = the_specs()[i]
    script = LINE_SCRIPTS[k]
    td = tree.scratch_tree()
    R.write_ruleset(os.path.join(td, 'Rules', 'v'), spec)
    S.clear_session(td)
    A = S.run_guesser(td, ['-r', 'v'], quit_after=2)
    sessions = [('fresh', None, None, ['-r', 'v'])]
    if A.sav_raw is not None:
        sessions.append(('resumed', A.sav_raw, A.omn, ['-r', 'v', '--load']))
    for name, sav, omn, argv in sessions:
        S.set_session(td, sav, omn)
        U = S.run_guesser(td, argv, line_keys=(0, [], 0.0))
        if U.exc:
            raise RuntimeError('harness: reference run failed: ' + U.exc)
        ref, total = U.stdout, U.line_events
        refset = set(ref)
        valid = set(range(len(ref) + 1))
        if script == ['q']:
            # legal cut positions: pre-terminal boundaries and every position inside a Markov pre-terminal (and, in a resumed session, inside the
            # remainder of the interrupted one, which comes first)
            valid, pos, first = {0}, 0, True
            for e in U.events:
                if e[0] == 'omen_restore':
                    for kk in range(1, (e[1] or 0) + 1):
                        valid.add(pos + kk)
                    pos += (e[1] or 0)
                    valid.add(pos)
                elif e[0] == 'pt':
                    if e[1][0][0][0] == 'M':
                        for kk in range(1, e[2] + 1):
                            valid.add(pos + kk)
                    pos += e[2]
                    valid.add(pos)
        acc.count('line_boundaries_%s_spec%d' % (name, i), total if (k == 0 and part == 0) else 0)
        for n in range(1, total + 1):
            if n % LINE_PARTS != part:
                continue
            S.set_session(td, sav, omn)
            r = S.run_guesser(td, argv, line_keys=(n, script, 61.0))
            acc.evals += 1
            acc.transitions += 1
            case = {'layer': 'lines', 'spec': i, 'script': script, 'session': name, 'line_boundary': n}
            if getattr(r, 'kb_blocked', False):
                acc.count('requests_that_would_have_waited_for_a_lock')
                continue
            if script == ['q'] and not r.exc:
                # a quit that arrives at this line boundary: the stream stops at a legal place, the session is saved, and the saved session
                # owes exactly what is missing - nothing of the uninterrupted stream may fall between the two runs
                acc.nontrivial += 1
                out = r.stdout
                if 'Exit command received' not in r.stderr:
                    acc.fail(case, 'quit at line boundary %d (%s session): the keyboard body ended without acknowledging the quit (%d of %d guesses written)' % (n, name, len(out), len(ref)),
                             'quit-request-dropped')
                    continue
                if out != ref[:len(out)]:
                    acc.fail(case, 'quit at line boundary %d (%s session): stream %r is not a prefix of the uninterrupted stream' % (n, name, out[-3:]), 'line-altered')
                    continue
                if len(out) not in valid:
                    acc.fail(case, 'quit at line boundary %d (%s session) cut the stream after %d guesses, inside a dictionary pre-terminal' % (n, name, len(out)), 'line-cut-inside-preterminal')
                    continue
                if r.sav_raw is None:
                    acc.fail(case, 'quit at line boundary %d (%s session) after %d guesses left no save file' % (n, name, len(out)), 'line-nosave')
                    continue
                S.set_session(td, r.sav_raw, r.omn)
                B = S.run_guesser(td, ['-r', 'v', '--load'])
                acc.evals += 1
                if B.exc:
                    acc.fail(case, 'the session saved by a quit at line boundary %d (%s session, %d guesses) cannot be resumed: %s' % (n, name, len(out), B.exc.strip().splitlines()[-1]), 'line-crash')
                    continue
                have = set(out) | set(B.stdout)
                lost = [l for l in ref if l not in have]
                foreign = [l for l in B.stdout if l not in refset]
                if lost or foreign:
                    acc.fail(case, 'quit at line boundary %d (%s session, %d guesses printed): %d guesses of the uninterrupted stream appear neither before the quit nor in the resumed run (e.g. %r); '
                             'foreign lines in the resumed run: %r' % (n, name, len(out), len(lost), lost[:3], foreign[:3]), 'line-lost-across-quit')
                continue
            if r.exc:
                acc.fail(case, 'request %r served at line boundary %d of the generating thread (%s session) made the run fail: %s' % (script, n, name, r.exc.strip().splitlines()[-1]),
                         'line-crash')
                continue
            if 'Status Report' in r.stderr or 'generating guesses yet' in r.stderr or 'Help' in r.stderr or script == ['h']:
                acc.nontrivial += 1
            if r.stdout != ref:
                d = next((x for x in range(min(len(ref), len(r.stdout))) if ref[x] != r.stdout[x]), min(len(ref), len(r.stdout)))
                acc.fail(case, 'request %r served at line boundary %d of the generating thread (%s session) changed the guess stream: line %d is %r instead of %r (%d lines instead of %d)'
                         % (script, n, name, d + 1, r.stdout[d] if d < len(r.stdout) else None, ref[d] if d < len(ref) else None, len(r.stdout), len(ref)), 'line-altered')
    tree.rmtree(td)


def replay(case):
    if case.get('layer') == 'lines':
        from ..runner import Acc
        acc = Acc()
        run_lines(('lines', case['spec'], LINE_SCRIPTS.index(case['script']), case['line_boundary'] % LINE_PARTS), 'quick', acc)
        fs = [f for f in acc.failures if f['case'] == case]
        return fs[0]['msg'] if fs else None
    from ..runner import Acc
    acc = Acc()
    run(('status', case['spec'], SCRIPTS.index(case['script'])), 'quick', acc)
    fs = [f for f in acc.failures if f['case'] == case] or acc.failures
    return fs[0]['msg'] if fs else None
