"""C16 — honeywords are drawn from the grammar with the grammar's probabilities; random-walk mode is reproducible."""
import itertools
import os
import subprocess
import sys
from collections import Counter
from fractions import Fraction

from .. import tree
from .. import rulesets as R
from .. import session as S
from . import queue_disk as D

ID = 'C16'
LEVEL = 'exploration'
RULE = ('exhaustive over the unit interval up to piecewise constancy: random_walk compares each uniform draw only with cumulative sums, so for every draw the driver enumerates, for every interval of the reference '
        'cumulative distribution, its midpoint and a point just inside each end (distance 1e-9), plus 0.0 and the largest double below 1; all combinations over the k+1 draws of a walk are executed on the real random_walk; '
        'each walk must land in the reference cell, the interval measures must add up to the ruleset probability of every pre-terminal; every choice() of the honeyword expansion is enumerated over every index and must '
        'receive the complete value group; session layer: --limit N gives N words of the non-Markov language in both modes, random_walk output identical across runs and hash seeds; non-trivial = walk with >= 2 draws')
ASSUMPTIONS = ['the selection functions are piecewise constant between the reference breakpoints (they only compare the draw with cumulative sums); points closer than 1e-9 to a breakpoint are not distinguished, so > vs >= is not observable',
               'random.random / random.choice / random.seed are replaced in the pcfg_grammar and honeyword_session module namespaces',
               'terminal lists sum to 1 up to floating-point rounding (e.g. 7, 13 or 19 equal shares); base structures may sum to less than 1 (edited rulesets): they are drawn in proportion']
DELTA = Fraction(1, 10 ** 9)
TOP = 1.0 - 2.0 ** -53


class NeedMore(Exception):
    pass


class Draws:
    def __init__(self, script):
        self.script = list(script)
        self.i = 0
        self.choice_args = []

    def random(self):
        if self.i >= len(self.script):
            raise NeedMore()
        v = self.script[self.i]
        self.i += 1
        return v

    def choice(self, seq):
        self.choice_args.append(list(seq))
        if self.i >= len(self.script):
            raise NeedMore()
        v = self.script[self.i]
        self.i += 1
        return seq[v]

    def seed(self, *a):
        pass

    def randint(self, a, b):
        return a

    def Random(self, *a):
        # a private generator object seeded by the code under test draws from the same script
        return self


_REAL = {}


def set_source(gm, src):
    """Make `src` the random source of the code under test: the module-level name `random` of pcfg_grammar (what today's code draws from) and the
    functions of the real `random` module (what a function that was handed the module - a default argument, an attribute - draws from)."""
    import random as real
    if not _REAL:
        _REAL.update({n: getattr(real, n) for n in ('random', 'choice', 'seed', 'randint')})
        _REAL['gm'] = gm.random if not isinstance(gm.random, (Draws, MarkovRuns)) else real
    gm.random = src
    for n in ('random', 'choice', 'seed', 'randint'):
        setattr(real, n, getattr(src, n))


def restore_source(gm):
    import random as real
    for n in ('random', 'choice', 'seed', 'randint'):
        if n in _REAL:
            setattr(real, n, _REAL[n])
    gm.random = real


class MarkovRuns:
    """Random source for whole sessions: the session re-seeds before every walk, so seed() marks the start of a walk; the first draw of a walk picks
    the base structure - `run_len` walks onto the Markov structure, then one onto a dictionary structure, and so on; every other draw is 0.5 / index 0."""

    def __init__(self, run_len, m_draw, word_draw):
        self.run_len, self.m_draw, self.word_draw = run_len, m_draw, word_draw
        self.walks = 0
        self.first = False

    def seed(self, *a):
        self.walks += 1
        self.first = True

    def random(self):
        if self.first:
            self.first = False
            return self.word_draw if self.walks % (self.run_len + 1) == 0 else self.m_draw
        return 0.5

    def choice(self, seq):
        return seq[0]

    def randint(self, a, b):
        return a

    def Random(self, *a):
        # a private generator object created (seeded) for a walk is the start of a walk, like seed()
        self.seed(*a)
        return self


def rulesets(tier):
    """(name, types {t: [(prob,[values])]}, base [(prob,[types])])"""
    out = []
    t = {
        'A1': [(.5, ['a']), (.25, ['b', 'c'])],
        'C1': [(.75, ['L']), (.25, ['U'])],
        'D1': [(.5, ['1']), (.3, ['2']), (.1, ['3', '4'])],
        'O1': [(.7, ['!']), (.3, ['#'])],
        'M': [(.5, ['1']), (.5, ['2'])],
        # letters whose upper case is longer than one character: masks are applied letter by letter
        'A2': [(.3, ['a\u00df', '\u00dfa']), (.4, ['\ufb01x'])],
        'C2': [(.5, ['LL']), (.25, ['UU', 'LU'])],
    }
    out.append(('mixed', t, [(.5, ['A1', 'C1', 'D1']), (.3, ['D1']), (.2, ['O1', 'D1'])]))
    # the same variable type at several positions of one structure (the walk must keep the positions apart)
    out.append(('repeated type', t, [(.6, ['D1', 'O1', 'D1']), (.3, ['D1', 'D1']), (.1, ['A1', 'C1', 'A1', 'C1'])]))
    out.append(('length-changing upper case', t, [(.7, ['A2', 'C2']), (.3, ['D1', 'A2', 'C2', 'O1'])]))
    # an edited ruleset (edit_rules.py removes structures without renormalising): structures are drawn in proportion to what is left
    out.append(('edited ruleset, structures sum to 0.5', t, [(.3, ['D1', 'O1']), (.2, ['A1', 'C1', 'D1'])]))
    out.append(('with markov', t, [(.4, ['D1']), (.4, ['M']), (.2, ['A1', 'C1'])]))
    for n in (7, 13, 19) if tier == 'quick' else (3, 6, 7, 10, 13, 14, 19, 23):
        tt = {'D1': [(1.0 / n, ['%d' % i]) for i in range(n)]}
        # n equally likely structures (cumulative sum may end below the largest double < 1)
        types = {'D%d' % i: [(1.0, ['%d' % i])] for i in range(n)}
        out.append(('%d equal structures' % n, types, [(1.0 / n, ['D%d' % i]) for i in range(n)]))
        # n groups with strictly descending probabilities 2(n-i)/(n(n+1)) (sum 1 in exact arithmetic, not in floats)
        gl = [(2.0 * (n - i) / (n * (n + 1)), ['v%d' % i]) for i in range(n)]
        out.append(('%d groups, cumulative rounding' % n, {'G': gl}, [(1.0, ['G'])]))
        out.append(('%d equal values in one group' % n, {'G': [(1.0 / n, ['w%d' % i for i in range(n)])]}, [(1.0, ['G'])]))
    # the same analysis on grammars produced by the real loader under --skip_brute / --all_lower (Markov line in the middle of the structure list):
    # the reference is the rescaled / collapsed ruleset
    disk = dict(D.TERMINALS[1])
    disk.update(grammar=[('D1', .3), ('M', .30), ('A1D1', .15), ('D1O1', .15), ('K4X1', .1)], prince=D.PRINCE)      # O1 holds '#', X1 holds '#1'
    for sb, sc in ((True, False), (True, True), (False, True)):
        types_l, base_l = R.ref_loaded(disk, sb, sc)
        out.append(('loaded from disk, skip_brute=%s all_lower=%s' % (sb, sc), types_l, base_l, (disk, sb, sc)))
    # structures with lengths of two digits (A10, D12), loaded without flags and under --all_lower
    from . import c14
    long = dict(c14.TERMINALS_LONG)
    long.update(grammar=[('A10', .5), ('A1D12', .3), ('D12', .2)], prince=D.PRINCE)
    for sb, sc in ((False, False), (False, True)):
        types_l, base_l = R.ref_loaded(long, sb, sc)
        out.append(('two-digit lengths loaded from disk, all_lower=%s' % sc, types_l, base_l, (long, sb, sc)))
    if tier == 'thorough':
        # more loader-produced grammars: three terminal sets x five structure lists x the four flag combinations
        glists = [[('A1', .5), ('M', .3), ('D1', .2)], [('A2A1', .4), ('D1D1', .3), ('Y1O1', .3)], [('M', .6), ('A1D1A1', .4)],
                  [('K4X1', .5), ('A1O1A2', .25), ('D2', .25)], [('D1', .25), ('A1', .25), ('O1', .25), ('Y1', .25)]]
        for ti in (0, 1, 2):
            for gi, gl in enumerate(glists):
                for sb, sc in ((False, False), (True, False), (False, True), (True, True)):
                    dk = dict(D.TERMINALS[ti])
                    dk.update(grammar=gl, prince=D.PRINCE)
                    types_l, base_l = R.ref_loaded(dk, sb, sc)
                    if base_l:
                        out.append(('terminal set %d, structure list %d, skip_brute=%s all_lower=%s' % (ti, gi, sb, sc), types_l, base_l, (dk, sb, sc)))
    # a structure with three alpha runs, loaded from disk (a capitalisation transition behind every run)
    # (the number of walks grows with the power of the number of transitions: one word, two masks, three runs; longer structures are C14's)
    many = dict(D.TERMINALS[0])
    many.update(A={1: [('a', 1.0)]}, C={1: [('L', .5), ('U', .5)]}, D={1: [('1', 1.0)]}, grammar=[('A1A1A1', .7), ('A1D1', .3)], prince=D.PRINCE)
    types_l, base_l = R.ref_loaded(many, False, False)
    out.append(('three alpha runs loaded from disk', types_l, base_l, (many, False, False)))
    # a ruleset trained on Capitalised passwords: the most probable mask of a length is not the all-lower-case one; under --all_lower the masks
    # collapse to the all-lower-case mask all the same
    capfirst = dict(D.TERMINALS[0])
    capfirst.update(C={1: [('U', .6), ('L', .4)], 2: [('UL', .5), ('LL', .3), ('UU', .2)]}, grammar=[('A1D1', .5), ('A2', .3), ('D1', .2)], prince=D.PRINCE)
    for sb, sc in ((False, True), (False, False)):
        types_l, base_l = R.ref_loaded(capfirst, sb, sc)
        out.append(('capitalised masks first, all_lower=%s' % sc, types_l, base_l, (capfirst, sb, sc)))
    # a ruleset trained on millions of passwords: neighbouring counts c and c-1 over N > 1e6 give probabilities closer than 1e-6, which are still
    # different groups with different chances (counts 2 499 990 / 4 / 3 / 2 / 1 over 2.5 M)
    near = dict(D.TERMINALS[0])
    near.update(A={1: [('a', .5), ('b', 0.2500004), ('c', 0.2499996)]}, D={1: [('1', .6), ('2', .4)], 3: [('123', 0.999996), ('777', 1.6e-06), ('808', 1.2e-06), ('951', 8e-07), ('364', 4e-07)]},
                grammar=[('D3', .5), ('A1D3', .3), ('D1', .2)], prince=D.PRINCE)
    types_l, base_l = R.ref_loaded(near, False, False)
    out.append(('probabilities closer than 1e-6 loaded from disk', types_l, base_l, (near, False, False)))
    # terminal probabilities cut to four decimals (a hand-edited or rounded ruleset): they sum to 0.9998, and the later slot has fewer groups than the
    # earlier one - a draw above the sum must still end in a group of ITS OWN slot
    out.append(('terminal probabilities that sum to 0.9998', {'O1': [(.5, ['!']), (.3, ['#']), (.2, ['$'])], 'D1': [(.6, ['1']), (.3998, ['2'])],
                                                             'A1': t['A1'], 'C1': t['C1']},
                [(.6, ['O1', 'D1']), (.4, ['A1', 'C1', 'D1'])]))
    # a structure whose probability Python writes in exponent notation without a decimal point (seen once in 20 000 passwords)
    rare = dict(D.TERMINALS[0])
    rare.update(grammar=[('A1D1', .6), ('D2', .39995), ('D1', 5e-05)], prince=D.PRINCE)
    types_l, base_l = R.ref_loaded(rare, False, False)
    out.append(('a structure of probability 5e-05 loaded from disk', types_l, base_l, (rare, False, False)))
    out.append(('renormalised (skip_brute style)', {'D1': t['D1'], 'O1': t['O1']}, [(.3 / .7, ['D1']), (.25 / .7, ['O1']), (.15 / .7, ['D1', 'O1'])]))
    return out


def shards(tier):
    return [('walk', i) for i in range(len(rulesets(tier)))] + [('session', 0)]


def bounds(tier):
    return {'rulesets': [r[0] for r in rulesets(tier)], 'representatives_per_interval': ['lo+1e-9', 'midpoint', 'hi-1e-9'], 'extremes': [0.0, TOP],
            'choices': 'every index of every choice() call', 'session_N': '1..20'}


SHORT = Fraction(1, 10 ** 9)


def short_of_one(weights):
    """how far the weights of a variable fall short of 1 when that is more than rounding (a cut or hand-edited list), else 0"""
    gap = 1 - sum(Fraction(w) for w in weights)
    return gap if gap > SHORT else Fraction(0)


def intervals(weights, raw=False):
    """weights: floats. Reference CDF on exact fractions, normalised (raw: as they are: random_walk compares a variable draw with the plain cumulative
    sums; what lies above the last sum belongs to no group). -> list of (lo, hi)"""
    fr = [Fraction(w) for w in weights]
    tot = Fraction(1) if raw else sum(fr)
    out = []
    acc = Fraction(0)
    for f in fr:
        out.append((acc / tot, (acc + f) / tot))
        acc += f
    return out


def seq_sum(xs):
    t = 0
    for x in xs:
        t += x
    return t


def reps(ivs):
    """representative draws: (value float, expected cell or set of cells, measure Fraction)"""
    out = []
    for i, (lo, hi) in enumerate(ivs):
        w = hi - lo
        if w <= 4 * DELTA:
            out.append((float((lo + hi) / 2), {i}, w))
            continue
        out.append((float((lo + hi) / 2), {i}, w))
        out.append((float(lo + DELTA), {i}, Fraction(0)))
        out.append((float(hi - DELTA), {i}, Fraction(0)))
    out.append((0.0, {0}, Fraction(0)))
    out.append((TOP, {len(ivs) - 1}, Fraction(0)))
    return out


def run_walk(shard, tier, acc):
    rs = rulesets(tier)
    tree.use()
    gm = tree.imp('lib_guesser.pcfg_grammar')
    # the ruleset of this shard, then - in the same process, on the same imported modules - the next one: a grammar must not inherit anything
    # from a grammar that was used before it
    _walk_one(gm, rs[shard[1]], acc, False)
    _walk_one(gm, rs[(shard[1] + 1) % len(rs)], acc, True)


def _walk_one(gm, entry, acc, second):
    name, types, base = entry[:3]
    if second:
        name = name + ' (second grammar of the process)'
    if len(entry) > 3:
        spec_l, sb_l, sc_l = entry[3]
        root_l = tree.mkdtemp('pcfgmc-c16d-')
        R.write_ruleset(root_l, spec_l)
        g = D.load(gm.PcfgGrammar, root_l, sb_l, sc_l, 'Grammar')
        if sb_l:
            base = [(p, r) for p, r in base]
        # the cells of the walk are named by group indices: what the groups of the loaded grammar stand for must be what the ruleset under these
        # flags says (under --all_lower: one all-lower-case mask per length)
        for t, groups in types.items():
            have = g.grammar.get(t)
            if have is None:
                continue
            got = [list(grp['values']) for grp in have]
            want = [list(vals) for _, vals in groups]
            acc.evals += 1
            if got != want:
                acc.fail({'ruleset': name, 'type': t}, '[%s] the groups of %s in the loaded grammar hold %r, the ruleset under these flags gives %r' % (name, t, got[:4], want[:4]), 'loaded-terminals')
    else:
        g = R.mem_grammar(gm.PcfgGrammar, types, base)
    case0 = {'ruleset': name}
    base_iv = intervals([p for p, _ in base])
    measure = Counter()
    real_random = gm.random
    try:
        # ---- Part A: every cell of the walk
        def explore(prefix, expect, meas):
            drv = Draws([v for v in prefix])
            set_source(gm, drv)
            try:
                item = g.random_walk()
            except NeedMore:
                # which draw is next? draw 0 selects the structure, draw k selects variable k-1
                k = len(prefix)
                if k == 0:
                    ivs = base_iv
                else:
                    si = expect[0]
                    reps_ = base[si][1]
                    if k - 1 >= len(reps_):
                        acc.fail(dict(case0, draws=prefix), 'random_walk asked for a %d-th draw for a structure with %d variables' % (k + 1, len(reps_)), 'draw-count')
                        return
                    tname = reps_[k - 1]
                    wts = [p * len(vals) for p, vals in types[tname]]
                    gap = short_of_one(wts)
                    ivs = intervals(wts, raw=bool(gap))
                rl = reps(ivs)
                if k > 0 and gap:
                    # a draw above the sum of a list that does not add up to 1: no group is owed it, any group OF THIS SLOT is accepted (and no crash)
                    rl = rl[:-1] + [(float(1 - gap / 2), {-1}, gap), (TOP, {-1}, Fraction(0))]
                for v, cell, w in rl:
                    # at the two extremes of a variable draw (0.0 and the largest double < 1) the floating-point cumulative sum may
                    # fall a rounding error short: any group is accepted there (measure 2^-53), only a crash is a failure;
                    # for the structure draw the extreme must still select a structure
                    # the group of a Markov variable is of no consequence (such a walk gives no honeyword and the session walks again): any group is accepted
                    anycell = (k > 0 and (v in (0.0, TOP) or tname[0] == 'M' or cell == {-1}))
                    explore(prefix + [v], expect + [-1 if anycell else min(cell)], meas * w if meas is not None else None)
                return
            except Exception as e:
                acc.evals += 1
                sig = 'walk-raise-top-of-interval' if any(v == TOP for v in prefix) else 'walk-raise'
                acc.fail(dict(case0, draws=prefix), '[%s] random_walk raised %r for draws %r' % (name, e, prefix), sig)
                return
            acc.evals += 1
            if len(prefix) >= 2:
                acc.nontrivial += 1
            si = expect[0]
            got = tuple(tuple(x) for x in item['pt'])
            if not got:
                sig = 'no-structure-selected-top-of-interval' if prefix[0] == TOP else 'no-structure-selected'
                acc.fail(dict(case0, draws=prefix), '[%s] first draw %r (cumulative sum of the %d structure probabilities is %r): random_walk selects no base structure, '
                         'the honeyword session then fails with IndexError' % (name, prefix[0], len(base), seq_sum([p for p, _ in base])), sig)
                return
            want = tuple(zip(base[si][1], [g_[1] if e_ == -1 else e_ for e_, g_ in zip(expect[1:], got)]))
            if got != want:
                acc.fail(dict(case0, draws=prefix), '[%s] draws %r selected %r, the reference cell is %r' % (name, prefix, got, want), 'wrong-cell')
                return
            if len(prefix) != 1 + len(base[si][1]):
                acc.fail(dict(case0, draws=prefix), '[%s] random_walk used %d draws for a structure with %d variables' % (name, len(prefix), len(base[si][1])), 'draw-count')
            if drv.i != len(prefix):
                acc.fail(dict(case0, draws=prefix), 'not all draws consumed', 'draw-count')
            measure[(si, got)] += meas
            # reported probability of the walk's item
            if any(not 0 <= i < len(types[t]) for t, i in got):
                acc.fail(dict(case0, draws=prefix), '[%s] draws %r selected %r: a group that the ruleset under these flags does not have' % (name, prefix, got), 'wrong-cell')
                return
            fac = [base[si][0]] + [types[t][i][0] for t, i in got]
            # random_walk reports base_prob 1.0 (it is not used for ordering); only sanity-check the type
            if not isinstance(item.get('prob'), float):
                acc.fail(dict(case0, draws=prefix), 'walk item without a float probability', 'item')
        explore([], [], Fraction(1))
        # distribution: measures add up to the ruleset probabilities
        for si, (bp, reps_) in enumerate(base):
            if any(t[0] == 'M' for t in reps_):
                # a Markov structure yields no honeyword: only the measure of the structure as a whole matters
                want = Fraction(bp) / sum(Fraction(p) for p, _ in base)
                got = sum((m for (sj, _), m in measure.items() if sj == si), Fraction(0))
                if abs(got - want) > Fraction(1, 10 ** 12):
                    acc.fail(dict(case0, structure=si), '[%s] the Markov structure is drawn with measure %r, its probability is %r' % (name, float(got), float(want)), 'measure')
                continue
            for idx in itertools.product(*[range(len(types[t])) for t in reps_]):
                pt = tuple(zip(reps_, idx))
                want = Fraction(bp) / sum(Fraction(p) for p, _ in base)
                slack = Fraction(1, 10 ** 12)
                for t, i in pt:
                    tot = sum(Fraction(p) * len(v) for p, v in types[t])
                    gap = short_of_one([p * len(v) for p, v in types[t]])
                    if gap:
                        tot = Fraction(1)
                        slack += gap      # the mass above the sum may land on any group of the slot
                    want *= Fraction(types[t][i][0]) * len(types[t][i][1]) / tot
                got = measure.get((si, pt), Fraction(0))
                if abs(got - want) > slack:
                    acc.fail(dict(case0, pt=pt), '[%s] pre-terminal %r of structure %d is drawn with measure %r, its probability is %r' % (name, pt, si, float(got), float(want)), 'measure')
        # ---- Part B: honeyword expansion, every index of every choice
        for si, (bp, reps_) in enumerate(base):
            for idx in itertools.product(*[range(len(types[t])) for t in reps_]):
                pt = list(zip(reps_, idx))
                sizes = [len(types[t][i][1]) for t, i in pt]
                if reps_ == ['M']:
                    lines = []
                    g.print_guess = lines.append
                    set_source(gm, Draws([]))
                    n = g.create_guesses(pt, is_honeyword=True)
                    acc.evals += 1
                    if n != 0 or lines:
                        acc.fail(dict(case0, pt=pt), 'Markov pre-terminal produced a honeyword', 'markov')
                    continue
                for choice in itertools.product(*[range(s) for s in sizes]):
                    drv = Draws(list(choice))
                    set_source(gm, drv)
                    lines = []
                    g.print_guess = lines.append
                    acc.evals += 1
                    try:
                        n = g.create_guesses(pt, is_honeyword=True)
                    except Exception as e:
                        acc.fail(dict(case0, pt=pt, choice=choice), 'honeyword expansion raised %r' % (e,), 'expand-raise')
                        continue
                    # reference: value choice[k] of each group, masks applied to the preceding word
                    one = {t: [(p, [vals[c]]) for p, vals in [types[t][i]]] for (t, i), c in zip(pt, choice)}
                    ref = ''
                    for (t, i), c in zip(pt, choice):
                        v = types[t][i][1][c]
                        if t[0] == 'C':
                            k = len(v)
                            ref = ref[:len(ref) - k] + ''.join(ch.upper() if m != 'L' else ch for ch, m in zip(ref[len(ref) - k:], v))
                        else:
                            ref += v
                    if lines != [ref] or n != 1:
                        acc.fail(dict(case0, pt=pt, choice=choice), 'honeyword for %r with choices %r is %r (count %r), expected [%r]' % (pt, choice, lines, n, ref), 'expand')
                    elif [len(a) for a in drv.choice_args] != sizes or any(a != types[t][i][1] for a, (t, i) in zip(drv.choice_args, pt)):
                        acc.fail(dict(case0, pt=pt, choice=choice), 'choice() was offered %r, the groups are %r' % (drv.choice_args, [types[t][i][1] for t, i in pt]), 'choice-set')
        acc.sample({'ruleset': name, 'cells': len(measure), 'base': base[:3]}, cap=1)
    finally:
        restore_source(gm)


SUB = r'''
import sys
sys.path.insert(0, %r)
from pcfgmc import session as S
r = S.run_guesser(sys.argv[1], ['-r', 'v', '-m', 'random_walk', '-n', '20'])
sys.stdout.write('\n'.join(r.stdout))
'''


def run_session(tier, acc):
    spec = dict(D.TERMINALS[1])
    spec.update(grammar=[('A1D1', .5), ('M', .3), ('D2', .2)], prince=D.PRINCE)
    td = tree.scratch_tree()
    R.write_ruleset(os.path.join(td, 'Rules', 'v'), spec)
    types, base = R.ref_loaded(spec, True, False)
    lang = set()
    for bp, reps_ in base:
        for idx in itertools.product(*[range(len(types[r])) for r in reps_]):
            lang.update(R.expand_pt(types, list(zip(reps_, idx))))
    for mode in ('random_walk', 'honeywords'):
        for N in range(1, 21):
            r1 = S.run_guesser(td, ['-r', 'v', '-m', mode, '-n', str(N)])
            acc.evals += 1
            acc.nontrivial += 1
            case = {'layer': 'session', 'mode': mode, 'N': N}
            if r1.exc:
                acc.fail(case, '%s -n %d raised %s' % (mode, N, r1.exc.strip().splitlines()[-1]), 'session-raise')
                continue
            if len(r1.stdout) != N:
                acc.fail(case, '%s -n %d produced %d words' % (mode, N, len(r1.stdout)), 'session-count')
            bad = [w for w in r1.stdout if w not in lang]
            if bad:
                acc.fail(case, '%s produced %r which is not in the non-Markov language' % (mode, bad[0]), 'session-language')
            if mode == 'random_walk':
                r2 = S.run_guesser(td, ['-r', 'v', '-m', mode, '-n', str(N)])
                if r2.stdout != r1.stdout:
                    acc.fail(case, 'two random_walk runs differ: %r vs %r' % (r1.stdout[:4], r2.stdout[:4]), 'session-reproducible')
    # a ruleset whose groups hold several values of equal probability (words, digits and capitalisation masks): which member of a group a walk takes
    # is a draw as well, and two runs of random_walk must agree on it
    tied = dict(D.TERMINALS[0])
    tied.update(A={1: [('a', .5), ('b', .5)], 2: [('ab', .25), ('cd', .25), ('ef', .25), ('gh', .25)]},
                C={1: [('L', .5), ('U', .5)], 2: [('LL', .25), ('UL', .25), ('LU', .25), ('UU', .25)]},
                D={1: [('1', .25), ('2', .25), ('3', .25), ('4', .25)], 2: [('12', .5), ('34', .5)]},
                grammar=[('A2D1', .5), ('A1A2', .3), ('D2A1', .2)], prince=D.PRINCE)
    R.write_ruleset(os.path.join(td, 'Rules', 't'), tied)
    types_t, base_t = R.ref_loaded(tied, True, False)
    lang_t = set()
    for bp, reps_ in base_t:
        for idx in itertools.product(*[range(len(types_t[r])) for r in reps_]):
            lang_t.update(R.expand_pt(types_t, list(zip(reps_, idx))))
    for N in (1, 7, 40):
        runs = [S.run_guesser(td, ['-r', 't', '-m', 'random_walk', '-n', str(N)]) for _ in range(3)]
        acc.evals += 3
        acc.nontrivial += 3
        case = {'layer': 'session', 'mode': 'random_walk', 'N': N, 'ruleset': 'tied values'}
        if any(r.exc for r in runs):
            acc.fail(case, 'random_walk -n %d raised %s' % (N, [r.exc for r in runs if r.exc][0].strip().splitlines()[-1]), 'session-raise')
            continue
        if any(len(r.stdout) != N or any(w not in lang_t for w in r.stdout) for r in runs):
            acc.fail(case, 'random_walk -n %d on the tied-value ruleset produced %r' % (N, runs[0].stdout[:5]), 'session-language')
        elif not (runs[0].stdout == runs[1].stdout == runs[2].stdout):
            d = next(i for i in range(N) if len(set(r.stdout[i] for r in runs)) > 1)
            acc.fail(case, 'three random_walk runs over a ruleset with tied values differ: word %d is %r' % (d + 1, [r.stdout[d] for r in runs]), 'session-reproducible')
    # --load next to -m random_walk / honeywords: with a save file that a cracking session over ANOTHER ruleset (and other flags) left under the same
    # session name, and without any save file: N words of the ruleset named on the command line either way
    for have_sav in (True, False):
        S.clear_session(td)
        if have_sav:
            A = S.run_guesser(td, ['-r', 't', '--all_lower'], quit_after=2)
            if A.sav is None:
                acc.count('no_save_file_for_the_load_layer')
                continue
        keep = None if not have_sav else (open(os.path.join(td, 'default_run.sav')).read())
        for mode in ('random_walk', 'honeywords'):
            for N in (1, 12):
                S.set_session(td, keep, None)
                r1 = S.run_guesser(td, ['-r', 'v', '-m', mode, '-n', str(N), '--load'])
                acc.evals += 1
                acc.nontrivial += 1
                case = {'layer': 'session', 'mode': mode, 'N': N, 'load': 'with a save file of another ruleset' if have_sav else 'without a save file'}
                if r1.exc and 'SystemExit' not in r1.exc:
                    acc.fail(case, '%s -n %d --load (%s) raised %s' % (mode, N, case['load'], r1.exc.strip().splitlines()[-1]), 'session-raise')
                    continue
                bad = [w for w in r1.stdout if w not in lang]
                if len(r1.stdout) != N or bad:
                    acc.fail(case, '%s -n %d --load (%s) produced %d words, %d of them outside the language of the ruleset named on the command line (e.g. %r)'
                             % (mode, N, case['load'], len(r1.stdout), len(bad), bad[:3]), 'session-load')
                elif mode == 'random_walk':
                    S.clear_session(td)
                    r2 = S.run_guesser(td, ['-r', 'v', '-m', mode, '-n', str(N)])
                    if r2.stdout != r1.stdout:
                        acc.fail(case, 'random_walk -n %d with --load (%s) and without it differ: %r vs %r' % (N, case['load'], r1.stdout[:4], r2.stdout[:4]), 'session-load')
    S.clear_session(td)
    # an edited ruleset (edit_rules.py removes structures and does not renormalise): the structure probabilities sum to 0.7
    edited = dict(D.TERMINALS[1])
    edited.update(grammar=[('A1D1', .4), ('D2', .3)], prince=D.PRINCE)
    R.write_ruleset(os.path.join(td, 'Rules', 'e'), edited)
    types_e, base_e = R.ref_loaded(edited, True, False)
    lang_e = set()
    for bp, reps_ in base_e:
        for idx in itertools.product(*[range(len(types_e[r])) for r in reps_]):
            lang_e.update(R.expand_pt(types_e, list(zip(reps_, idx))))
    for mode in ('random_walk', 'honeywords'):
        for N in (1, 5, 25):
            r1 = S.run_guesser(td, ['-r', 'e', '-m', mode, '-n', str(N)])
            acc.evals += 1
            acc.nontrivial += 1
            case = {'layer': 'session', 'mode': mode, 'N': N, 'ruleset': 'edited, structures sum to 0.7'}
            if r1.exc:
                acc.fail(case, '%s -n %d on the edited ruleset raised %s' % (mode, N, r1.exc.strip().splitlines()[-1]), 'session-raise')
            elif len(r1.stdout) != N or any(w not in lang_e for w in r1.stdout):
                acc.fail(case, '%s -n %d on a ruleset whose structures sum to 0.7 wrote %d lines, not in the language: %r' % (mode, N, len(r1.stdout), [w for w in r1.stdout if w not in lang_e][:2]),
                         'session-language')
    # runs of walks that land on the Markov structure (no honeyword for those: the session just walks again) between the walks that give a word:
    # however long such a run is, --limit N still means N words
    for mode in ('random_walk', 'honeywords'):
        for run_len, N in ((0, 3), (1, 3), (7, 3), (2500, 1), (1200, 3)):
            drv = MarkovRuns(run_len, m_draw=0.6, word_draw=0.1)
            r1 = S.run_guesser(td, ['-r', 'v', '-m', mode, '-n', str(N)], rng=drv)
            acc.evals += 1
            acc.nontrivial += 1
            case = {'layer': 'session', 'mode': mode, 'N': N, 'markov_run': run_len}
            if r1.exc:
                acc.fail(case, '%s -n %d raised %s' % (mode, N, r1.exc.strip().splitlines()[-1]), 'session-raise')
            elif len(r1.stdout) != N or any(w not in lang for w in r1.stdout):
                acc.fail(case, '%s -n %d with %d walks onto the Markov structure before every word produced %d words %r (%d walks made)'
                         % (mode, N, run_len, len(r1.stdout), r1.stdout[:3], drv.walks), 'session-count')
            elif drv.walks != (run_len + 1) * N:
                acc.fail(case, 'harness: %d walks made, the draw plan expects %d' % (drv.walks, (run_len + 1) * N), 'harness-plan')
    verif = os.path.dirname(os.path.dirname(os.path.dirname(os.path.abspath(__file__))))
    outs = []
    for seed in ('1', '2'):
        env = dict(os.environ, PYTHONHASHSEED=seed)
        r = subprocess.run([sys.executable, '-B', '-c', SUB % verif, td], env=env, capture_output=True, text=True, timeout=120)
        outs.append(r.stdout)
        acc.evals += 1
    if outs[0] != outs[1] or not outs[0]:
        acc.fail({'layer': 'session', 'mode': 'random_walk', 'subprocess': True}, 'random_walk output differs between two processes (PYTHONHASHSEED 1 vs 2) or is empty', 'session-reproducible')
    tree.rmtree(td)


def run_shard(shard, tier, acc):
    if shard[0] == 'walk':
        run_walk(shard, tier, acc)
    else:
        run_session(tier, acc)


def replay(case):
    from ..runner import Acc
    acc = Acc()
    if case.get('layer') == 'session':
        run_session('quick', acc)
    else:
        names = [r[0] for r in rulesets('thorough')]
        suffix = ' (second grammar of the process)'
        rname = case['ruleset']
        if rname.endswith(suffix):
            idx = (names.index(rname[:-len(suffix)]) - 1) % len(names)
        else:
            idx = names.index(rname)
        run_walk(('walk', idx), 'thorough', acc)
    fs = [f for f in acc.failures if all(f['case'].get(k) == v for k, v in case.items() if k in ('draws', 'pt', 'N', 'mode', 'ruleset'))]
    return fs[0]['msg'] if fs else None
