"""On-disk layer of C01: rulesets written to disk, loaded by the real loader under every flag
combination (skip_brute x all_lower x Grammar/Prince folder), then run to exhaustion."""
import itertools
import os
from collections import Counter

from .. import tree
from .. import rulesets as R
from . import queue_common as Q

NSHARDS = 16

TERMINALS = [
    {   # dyadic, tie rich
        'A': {1: [('a', .5), ('b', .25), ('c', .25)], 2: [('ab', .5), ('cd', .5)]},
        'C': {1: [('L', .75), ('U', .25)], 2: [('LL', .5), ('UL', .25), ('LU', .125), ('UU', .125)]},
        'D': {1: [('1', .5), ('2', .25), ('3', .25)], 2: [('12', 1.0)]},
        'O': {1: [('!', .5), ('#', .5)]},
        'K': {4: [('1qaz', 1.0)]},
        'Y': [('2019', .5), ('1999', .5)], 'X': [('#1', 1.0)],
    },
    {   # 0.7/0.3/0.1 family: products depend on multiplication order by one ulp
        'A': {1: [('a', .7), ('b', .3)], 2: [('ab', .7), ('cd', .2), ('ef', .1)]},
        'C': {1: [('L', .9), ('U', .1)], 2: [('LL', .7), ('UL', .3)]},
        'D': {1: [('1', .7), ('2', .2), ('3', .1)], 2: [('12', .6), ('21', .4)]},
        'O': {1: [('!', .7), ('#', .3)]},
        'K': {4: [('1qaz', .7), ('qwer', .3)]},
        'Y': [('2019', .7), ('1999', .3)], 'X': [('#1', .9), ('<3', .1)],
    },
    {   # capitalisation lists in which the all-lower mask is NOT the single most probable mask
        'A': {1: [('a', .5), ('b', .5)], 2: [('ab', .6), ('cd', .4)]},
        'C': {1: [('U', .75), ('L', .25)], 2: [('LL', .4), ('UL', .4), ('UU', .2)]},
        'D': {1: [('1', .6), ('2', .4)], 2: [('12', 1.0)]},
        'O': {1: [('!', 1.0)]},
        'K': {4: [('1qaz', .5), ('1QAZ', .3), ('!QAZ', .2)]},      # walks are stored as typed: --all_lower concerns the C masks only
        'Y': [('2019', 1.0)], 'X': [('#1', 1.0)],
    },
    {   # tails of tiny probabilities and neighbouring doubles: adjacent values closer than any absolute tolerance are still different groups
        'A': {1: [('a', .5), ('b', 0.30000000000000004), ('c', 0.3)], 2: [('ab', .9), ('cd', 3e-17), ('ef', 1e-17)]},
        'C': {1: [('L', 0.6), ('U', 0.4)], 2: [('LL', 0.9999999999999999), ('UL', 1e-16), ('LU', 5e-17)]},
        'D': {1: [('1', .6), ('2', 3e-17), ('3', 2e-17), ('4', 1e-17)], 2: [('12', 1.0)]},
        'O': {1: [('!', .7), ('#', 2e-17)]},
        'K': {4: [('1qaz', 1.0)]},
        'Y': [('2019', .5), ('1999', 0.49999999999999994)], 'X': [('#1', 1.0)],
    },
]
STRUCTS = ['A1', 'A1D1', 'D1A1', 'A2A1', 'A1O1A2', 'D1D1', 'D2', 'Y1O1', 'K4X1', 'M', 'A1D1A1', 'A1A1A1']
PROBS = {1: [[1.0], [0.3]], 2: [[.5, .3], [.4, .4]], 3: [[.5, .3, .2], [.4, .4, .2]]}
PRINCE = [('A1', .4), ('D1', .3), ('A2', .2), ('O1', .1)]


def specs(tier):
    maxn = 3 if tier == 'thorough' else 2
    for ti, term in enumerate(TERMINALS):
        for n in range(1, maxn + 1):
            for combo in itertools.combinations(STRUCTS, n):
                for probs in PROBS[n]:
                    spec = dict(term)
                    spec['grammar'] = list(zip(combo, probs))
                    spec['prince'] = PRINCE
                    yield spec
    # a dominant Markov structure next to one dictionary structure: the --skip_brute rescaling p / (1 - P(M)) then rounds to just above 1.0
    # (0.1 / (1 - 0.9) = 1.0000000000000002), and with single-valued terminals that is the probability of a whole pre-terminal
    for term in TERMINALS[:3]:
        for st in STRUCTS:
            if st == 'M':
                continue
            for p, pm in ((.1, .9), (.2, .8), (.3, .7)):
                spec = dict(term)
                spec['grammar'] = [(st, p), ('M', pm)]
                spec['prince'] = PRINCE
                yield spec


    # e-mail provider and website host lists (two separate variables E and W, used by PRINCE structures and hand-written grammars)
    for term in TERMINALS[:2]:
        ew = dict(term)
        ew['E'] = [('gmail.com', .5), ('aol.com', .3), ('web.de', .2)]
        ew['W'] = [('site.com', .6), ('foo.org', .25), ('x.net', .15)]
        for gr in ([('E', .5), ('D1', .3), ('W', .2)], [('A1E', .6), ('W', .4)], [('WE', 1.0)], [('W', .5), ('E', .5)]):
            spec = dict(ew)
            spec['grammar'] = gr
            spec['prince'] = gr
            yield spec
    # Markov levels whose probability does not fall with the level number (the trainer lists them by probability: 1, 3, 2, 4)
    for term in TERMINALS[:2]:
        for gr in ([('M', 1.0)], [('M', .5), ('D1', .5)], [('A1D1', .6), ('M', .4)]):
            for op in ([(1, .25), (3, .125), (2, .0625)], [(2, .5), (1, .25), (3, .125)], [(1, .25), (3, .25), (2, .125)]):
                spec = dict(term)
                spec['grammar'] = gr
                spec['prince'] = PRINCE
                spec['omen'] = dict(R.DEFAULT_OMEN, omen_prob=op)
                yield spec

    # lengths of three digits next to lengths that are their first one / two digits
    wide = dict(TERMINALS[0])
    wide['D'] = {1: [('7', .5), ('8', .5)], 10: [('1234567890', .6), ('0987654321', .4)], 100: [('3074185296' * 10, 1.0)], 101: [('5' * 101, .5), ('6' * 101, .5)]}
    wide['A'] = {1: [('a', 1.0)], 10: [('abcdefghij', 1.0)], 105: [('k' * 105, 1.0)]}
    wide['C'] = {1: [('L', .5), ('U', .5)], 10: [('L' * 10, .6), ('U' + 'L' * 9, .4)], 105: [('L' * 105, 1.0)]}
    for gr in ([('D100', .4), ('D10', .3), ('D1', .3)], [('A105D1', .5), ('A10D101', .3), ('A1D10', .2)], [('D101D100', .6), ('D10D1', .4)]):
        spec = dict(wide)
        spec['grammar'] = gr
        spec['prince'] = [('D10', .3), ('D100', .25), ('A105', .15), ('D1', .1), ('D101', .1), ('A10', .05), ('A1', .05)]
        yield spec
    # probabilities that Python writes in exponent notation, with and without a decimal point in the mantissa
    for term in TERMINALS[:2]:
        for gr in ([('A1D1', .6), ('D2', .39995), ('D1', 5e-05)], [('D1D1', .7), ('A2A1', .29998765), ('Y1O1', 1.235e-05)], [('M', .5), ('A1', .49999), ('D1', 1e-05)]):
            spec = dict(term)
            spec['grammar'] = gr
            spec['prince'] = [('A1', .6), ('D1', .39995), ('O1', 5e-05)]
            yield spec
    # structure lists that are NOT in descending order of probability (a merged or hand-edited grammar.txt; edit_rules.py keeps whatever order it
    # finds): the queue owes its order to the heap, not to the order of the file
    for term in TERMINALS[:2]:
        for combo in itertools.combinations(STRUCTS, 2):
            for probs in ([.3, .5], [.1, .9]):
                spec = dict(term)
                spec['grammar'] = list(zip(combo, probs))
                spec['prince'] = list(reversed(PRINCE))
                yield spec
        for combo in list(itertools.combinations(STRUCTS, 3))[::(1 if tier == 'thorough' else 6)]:
            for probs in ([.5, .1, .4], [.1, .4, .5], [.2, .3, .5]):
                spec = dict(term)
                spec['grammar'] = list(zip(combo, probs))
                spec['prince'] = [PRINCE[2], PRINCE[0], PRINCE[3], PRINCE[1]]
                yield spec


def shards(tier):
    return [('disk', i, NSHARDS) for i in range(NSHARDS)]


def bounds(tier):
    return {'terminal_sets': len(TERMINALS), 'structure_candidates': STRUCTS,
            'structures_per_ruleset': '1..%d' % (3 if tier == 'thorough' else 2),
            'flags': 'skip_brute x all_lower x {Grammar, Prince}'}


def load(PcfgGrammar, root, sb, sc, folder):
    import contextlib, io
    with contextlib.redirect_stdout(io.StringIO()), contextlib.redirect_stderr(io.StringIO()):
        return PcfgGrammar('r', root, '4.7', None, skip_brute=sb, skip_case=sc, base_structure_folder=folder)


def check_one(mods, spec, root, flags, acc):
    PcfgGrammar, PcfgQueue = mods
    sb, sc, folder = flags
    fails = []
    try:
        g = load(PcfgGrammar, root, sb, sc, folder)
    except Exception as e:
        return [('C01', 'load raised %r' % (e,))], []
    types, base = R.ref_loaded(spec, sb, sc, folder)
    tp = {t: [p for p, _ in groups] for t, groups in types.items()}
    q = PcfgQueue(g)
    seq = []
    last = None
    n = 0
    while True:
        it = q.next()
        if it is None:
            break
        n += 1
        acc.transitions += 1
        acc.states += 1
        if n > 5000:
            fails.append(('C01', 'runaway'))
            break
        pt = tuple(tuple(x) for x in it['pt'])
        prob = it['prob']
        seq.append((pt, prob))
        if last is not None and prob > last:
            fails.append(('C01', 'order: pop %d prob %r > previous %r' % (n, prob, last)))
        last = prob
        # reference product: base probability of *some* structure line with these replacements
        reps = [t for t, _ in pt]
        cands = [bp for bp, r in base if r == reps]
        try:
            fac = [tp[t][i] for t, i in pt]
        except (KeyError, IndexError):
            fails.append(('C01', 'pre-terminal %r is not in the reference ruleset' % (pt,)))
            continue
        if not any(R.within_slack(prob, R.exact_product([bp] + fac), len(fac) + 2) for bp in cands):
            fails.append(('C01', 'reported prob %r of %r is not base %r x %r' % (prob, pt, cands, fac)))
        # "... and hence every guess": the terminals this pre-terminal stands for are exactly those the ruleset lists with these probabilities
        for t, i in pt:
            have = [str(v) for v in g.grammar[t][i]['values']]
            want = [str(v) for v in types[t][i][1]]
            if sorted(have) != sorted(want):
                fails.append(('C01', 'terminals: %s[%d] (probability %r) stands for %r, the ruleset gives that probability to %r' % (t, i, tp[t][i], have[:6], want[:6])))
                break
        if len(fails) > 5:
            break
    return fails, seq


def run_shard(shard, tier, acc, oracle):
    _, si, ns = shard
    tree.use()
    PcfgGrammar = tree.imp('lib_guesser.pcfg_grammar').PcfgGrammar
    PcfgQueue = tree.imp('lib_guesser.priority_queue').PcfgQueue
    mods = (PcfgGrammar, PcfgQueue)
    root = tree.mkdtemp('pcfgmc-c01-')
    try:
        for idx, spec in enumerate(specs(tier)):
            if idx % ns != si:
                continue
            rdir = os.path.join(root, 'r%d' % idx)
            R.write_ruleset(rdir, spec)
            for flags in itertools.product([False, True], [False, True], ['Grammar', 'Prince']):
                if flags[0] and flags[2] == 'Grammar' and any(s == 'M' and p == 1.0 for s, p in spec['grammar']):
                    # P(Markov) = 1: the rescaling 1/(1-P) is undefined, the configuration is outside the property
                    acc.count('skipped_degenerate_skip_brute_with_P(M)=1')
                    continue
                acc.evals += 1
                fails, seq = check_one(mods, spec, rdir, flags, acc)
                fails2, seq2 = check_one(mods, spec, rdir, flags, Q.Acc0)
                acc.validated += 1
                if seq != seq2:
                    fails.append(('C01', 'two loads+runs of the same ruleset differ'))
                probs = Counter(p for _, p in seq)
                if any(v > 1 for v in probs.values()):
                    acc.nontrivial += 1
                case = {'kind': 'disk', 'spec': spec, 'flags': list(flags)}
                for orc, msg in fails:
                    acc.fail(case, msg, sig='disk:' + Q.signature(orc, msg), oracle=orc)
                if idx % 97 == si and flags == (True, True, 'Grammar'):
                    acc.sample({'kind': 'disk', 'grammar': spec['grammar'], 'flags': list(flags),
                                'emitted': [[list(map(list, pt)), p] for pt, p in seq[:6]]}, cap=1)
            tree.rmtree(rdir)
    finally:
        tree.rmtree(root)


def dup_spec():
    """A hand-edited ruleset: values listed twice inside one group of equal probability (the same value appended again). Whatever a loader
    does with the repeat, it must do the same in every process."""
    spec = dict(TERMINALS[0])
    spec['D'] = {1: [('1', .4), ('2', .15), ('3', .15), ('4', .15), ('2', .15)], 2: [('12', .5), ('21', .25), ('34', .25), ('21', .25), ('56', .25)]}
    spec['A'] = {1: [('a', .5), ('b', .25), ('c', .25), ('b', .25)], 2: [('ab', .5), ('cd', .5)]}
    spec['grammar'] = [('A1D1', .5), ('D2', .3), ('D1', .2)]
    spec['prince'] = PRINCE
    return spec


def run_hashseed(tier, acc):
    """Determinism across processes: the real CLI in two subprocesses with different PYTHONHASHSEED must print the same stream."""
    import subprocess
    import sys
    td = tree.scratch_tree()
    n = 0
    for idx, spec in enumerate([dup_spec()] + list(specs('quick'))):
        if idx % 23:
            continue
        R.write_ruleset(os.path.join(td, 'Rules', 'v'), spec)
        for flags in ([], ['--skip_brute', '--all_lower']):
            outs = []
            for seed in ('1', '2'):
                env = dict(os.environ, PYTHONHASHSEED=seed)
                r = subprocess.run([sys.executable, '-B', os.path.join(td, 'pcfg_guesser.py'), '-r', 'v'] + flags, stdin=subprocess.DEVNULL,
                                   capture_output=True, env=env, timeout=300)
                outs.append(r.stdout)
                acc.evals += 1
            n += 1
            acc.nontrivial += 1
            if outs[0] != outs[1] or not outs[0]:
                acc.fail({'kind': 'hashseed', 'grammar': spec['grammar'], 'flags': flags},
                         'pcfg_guesser printed different streams in two processes with PYTHONHASHSEED 1 and 2 (or nothing at all)', 'disk:C01:hashseed', oracle='C01')
        import shutil
        shutil.rmtree(os.path.join(td, 'Rules', 'v'))
        for ext in ('.sav', '.omn'):
            pth = os.path.join(td, 'default_run' + ext)
            if os.path.exists(pth):
                os.unlink(pth)
    acc.count('hashseed_pairs', n)
    tree.rmtree(td)


def replay(case, oracle):
    tree.use()
    PcfgGrammar = tree.imp('lib_guesser.pcfg_grammar').PcfgGrammar
    PcfgQueue = tree.imp('lib_guesser.priority_queue').PcfgQueue
    spec = fix_spec(case['spec'])
    root = tree.mkdtemp('pcfgmc-c01r-')
    R.write_ruleset(root, spec)
    fails, seq = check_one((PcfgGrammar, PcfgQueue), spec, root, tuple(case['flags']), Q.Acc0)
    tree.rmtree(root)
    fails = [f for f in fails if f[0] == oracle]
    return '; '.join(m for _, m in fails[:3]) if fails else None


def fix_spec(spec):
    """JSON round trip turns tuples into lists and int keys into strings: normalise."""
    out = {}
    for k, v in spec.items():
        if isinstance(v, dict) and k in 'ADOKC':
            out[k] = {int(l): [tuple(r) for r in rows] for l, rows in v.items()}
        elif isinstance(v, list):
            out[k] = [tuple(r) if isinstance(r, list) else r for r in v]
        else:
            out[k] = v
    return out
