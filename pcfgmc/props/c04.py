"""C04 — a pre-terminal expands to exactly the product of its terminal groups; count = lines;
loader groups maximal runs of equal probability; a Markov pre-terminal = its OMEN level."""
import itertools
import os
from collections import Counter

from .. import tree
from .. import rulesets as R
from . import queue_disk as D

ID = 'C04'
LEVEL = 'exploration'
RULE = ('bounded-exhaustive: every index vector of every ruleset in the shape family (all groupings of the U/L masks of length 1 and 2, '
        'alpha at start/middle/end, adjacent alphas, values with spaces and non-ASCII) is expanded by the real create_guesses and compared '
        'as a multiset with the reference product; loader layer: every non-increasing probability column of length <=5 over {.5,.25,.125}; '
        'Markov layer: hand-written OMEN models x every listed level; non-trivial = pre-terminal with >=2 guesses or a capitalisation mask containing U')
ASSUMPTIONS = ['guesses are observed on the real stdout of create_guesses (redirected), i.e. after the grammar\'s own print_guess',
               'reference expansion and reference OMEN level sets are written independently (pcfgmc.rulesets.expand_pt / omen_level_set)']
NSHARDS = 16

A_VARIANTS = {
    1: [[(.5, ['a']), (.25, ['b', 'c'])], [(1.0, ['é'])], [(1.0, ['\u00df'])], [(1.0, ['\u4e2d'])]],      # the last one: a letter without case (every mask gives the same string)
    # letters whose upper case is longer than one character (sharp s, j-caron, fi ligature): masks are applied letter by letter
    2: [[(.5, ['ab', 'cd']), (.25, ['éf'])], [(.5, ['a\u00df', '\u00dfa']), (.25, ['\u01f0b', '\ufb01x'])], [(.5, ['\u4e2d\u56fd', 'ab']), (.25, ['\u65e5a'])]],
    3: [[(1.0, ['xyz', 'ябв'])]],
}
D1 = [(.5, ['1', '2']), (.25, ['3'])]
D2 = [(1.0, ['12'])]
O1 = [(.5, [' ']), (.25, ['!', '\U0001F600'])]
O2 = [(1.0, ['! ', ' #'])]


def set_partitions(items):
    items = list(items)
    if not items:
        yield []
        return
    first, rest = items[0], items[1:]
    for part in set_partitions(rest):
        for i in range(len(part)):
            yield part[:i] + [[first] + part[i]] + part[i + 1:]
        yield [[first]] + part


def mask_groupings(n, max_groups):
    masks = [''.join(m) for m in itertools.product('LU', repeat=n)]
    out = []
    for k in range(1, len(masks) + 1):
        for sub in itertools.combinations(masks, k):
            for part in set_partitions(sub):
                if len(part) > max_groups:
                    continue
                for perm in itertools.permutations(part):
                    out.append([(0.5 ** (i + 1), list(g)) for i, g in enumerate(perm)])
    return out


STRUCTS = ['A1', 'A2', 'A1D1', 'D1A1', 'A2A1', 'A1A2', 'D1A2O2', 'A1O1A2', 'A3D1A1', 'O2A1', 'A2D1D1', 'D2O1', 'A1A1A1', 'A2A2']


def mem_cases(tier):
    c1s = mask_groupings(1, 2)
    c2s = mask_groupings(2, 2 if tier == 'quick' else 3)
    if tier == 'quick':
        c2s = c2s[::2]
    c3 = [(.5, ['LLL', 'ULL']), (.25, ['UUU', 'LUL'])]
    for s in STRUCTS:
        reps = R.parse_structure(s)
        full = []
        for r in reps:
            full.append(r)
            if r[0] == 'A':
                full.append('C' + r[1:])
        need1 = 'C1' in full
        need2 = 'C2' in full
        for a1, a2 in [(x, y) for x in (A_VARIANTS[1] if 'A1' in full else [None]) for y in (A_VARIANTS[2] if 'A2' in full else [None])]:
            for c1 in (c1s if need1 else [None]):
                for c2 in (c2s if need2 else [None]):
                    types = {'A1': a1 or A_VARIANTS[1][0], 'A2': a2 or A_VARIANTS[2][0], 'A3': A_VARIANTS[3][0],
                             'C1': c1 or c1s[0], 'C2': c2 or c2s[0], 'C3': c3,
                             'D1': D1, 'D2': D2, 'O1': O1, 'O2': O2}
                    yield s, full, types
    # alpha words of 10, 12 and 21 letters (a transition name with two digits) with several masks per group, alone and between other variables
    long_words = {'A10': [(.6, ['abcdefghij', 'basketball']), (.4, ['strasseweg'])], 'A12': [(1.0, ['abcdefghijkl'])],
                  'A21': [(1.0, ['abcdefghijklmnopqrstu'])]}
    long_masks = {'C10': [(.5, ['L' * 10]), (.3, ['U' + 'L' * 9, 'L' * 9 + 'U']), (.2, ['U' * 10, 'ULLLLULLLL'])],
                  'C12': [(.7, ['L' * 12, 'UL' * 6]), (.3, ['L' * 11 + 'U'])],
                  'C21': [(.5, ['L' * 21]), (.5, ['U' + 'L' * 20, 'L' * 10 + 'U' + 'L' * 10])]}
    base_types = {'A1': A_VARIANTS[1][0], 'C1': c1s[0], 'D1': D1, 'O1': O1}
    base_types.update(long_words)
    base_types.update(long_masks)
    for s in ('A10', 'A12', 'A21', 'A10D1', 'D1A10O1', 'A1A10', 'A10A1', 'A12A10'):
        full = []
        for r in R.parse_structure(s):
            full.append(r)
            if r[0] == 'A':
                full.append('C' + r[1:])
        yield s, full, dict(base_types)


OMEN_MODELS = [
    R.DEFAULT_OMEN,
    {'ngram': 2, 'alphabet': ['a', 'b', 'c'], 'ip': {'a': 0, 'b': 1, 'c': 2}, 'ep': {},
     'cp': {'aa': 1, 'ab': 0, 'ac': 2, 'ba': 0, 'bc': 1, 'ca': 0, 'cc': 3}, 'ln': [5, 1, 0, 2]},
    {'ngram': 3, 'alphabet': ['a', 'b'], 'ip': {'aa': 0, 'ab': 1, 'ba': 1, 'bb': 2}, 'ep': {},
     'cp': {'aaa': 1, 'aab': 0, 'aba': 0, 'abb': 2, 'baa': 0, 'bab': 1, 'bba': 0, 'bbb': 1}, 'ln': [10, 10, 0, 1, 2]},
    # transitions at the smoothing cap (level 10): the trainer lists levels up to 18, and all Markov pre-terminals of a grammar share one
    # OMEN optimizer, so sub-problems with more than 10 levels left are solved before and after the ones with exactly 10 left
    {'ngram': 2, 'alphabet': ['a', 'b', 'c'], 'ip': {'a': 0, 'b': 1, 'c': 3}, 'ep': {}, 'top_level': 16,
     'cp': {'aa': 0, 'ab': 1, 'ac': 10, 'ba': 0, 'bb': 2, 'bc': 10, 'ca': 1, 'cb': 0, 'cc': 10}, 'ln': [10, 0, 0, 1]},
    # the cheapest initial n-gram is not at level 0, and a level spans several lengths
    {'ngram': 2, 'alphabet': ['a', 'b', 'c'], 'ip': {'a': 1, 'b': 2, 'c': 4}, 'ep': {}, 'top_level': 9,
     'cp': {'aa': 0, 'ab': 1, 'ac': 3, 'ba': 0, 'bb': 2, 'bc': 1, 'ca': 1, 'cb': 0, 'cc': 2}, 'ln': [10, 0, 1, 1, 2]},
    {'ngram': 3, 'alphabet': ['a', 'b'], 'ip': {'aa': 0, 'ab': 1, 'ba': 10, 'bb': 2}, 'ep': {}, 'top_level': 14,
     'cp': {'aaa': 10, 'aab': 0, 'aba': 0, 'abb': 10, 'baa': 0, 'bab': 1, 'bba': 10, 'bbb': 0}, 'ln': [10, 10, 0, 1, 0]},
    # alphabets with a blank / a no-break space: n-grams that end in (or consist of) white space are n-grams like any other
    {'ngram': 2, 'alphabet': ['a', ' '], 'ip': {'a': 0, ' ': 1}, 'ep': {}, 'cp': {'aa': 0, 'a ': 1, ' a': 0, '  ': 2}, 'ln': [10, 0, 1]},
    {'ngram': 3, 'alphabet': ['a', ' '], 'ip': {'aa': 0, 'a ': 1, ' a': 1, '  ': 2}, 'ep': {},
     'cp': {'aaa': 1, 'aa ': 0, 'a a': 0, 'a  ': 2, ' aa': 0, ' a ': 1, '  a': 0, '   ': 1}, 'ln': [10, 10, 0, 1, 2]},
    {'ngram': 2, 'alphabet': ['a', '\u00a0', '\u3000'], 'ip': {'a': 0, '\u00a0': 1, '\u3000': 2}, 'ep': {},
     'cp': {'aa': 1, 'a\u00a0': 0, 'a\u3000': 2, '\u00a0a': 0, '\u00a0\u3000': 1, '\u3000a': 0, '\u3000\u3000': 3}, 'ln': [5, 1, 0, 2]},
]


def nonincreasing_columns(maxlen):
    vals = [.5, .25, .125]
    for n in range(1, maxlen + 1):
        for combo in itertools.combinations_with_replacement(range(len(vals)), n):
            yield [vals[i] for i in combo]
    # neighbouring doubles and values that differ only in the last printed digits: groups are runs of EXACTLY equal probability
    near = [0.30000000000000004, 0.3, 0.29999999999999993, 0.1, 0.09999999999999999, 1e-300, 5e-324, 0.0]
    for n in range(1, min(maxlen, 4) + 1):
        for combo in itertools.combinations_with_replacement(range(len(near)), n):
            yield [near[i] for i in combo]


def shards(tier):
    return [('mem', i, NSHARDS) for i in range(NSHARDS)] + [('loader', 0, 1), ('markov', 0, 1)]


def bounds(tier):
    return {'structures': STRUCTS, 'C1_groupings': len(mask_groupings(1, 2)),
            'C2_groupings': len(mask_groupings(2, 2 if tier == 'quick' else 3)) // (3 if tier == 'quick' else 1),
            'loader_columns': 'all non-increasing columns of length <= %d over {.5,.25,.125}' % (5 if tier == 'quick' else 7),
            'omen_models': len(OMEN_MODELS)}


def capture(g, pt, **kw):
    """What create_guesses really writes to stdout (through the grammar's own print_guess), and the count it reports."""
    import contextlib
    import io
    buf = io.StringIO()
    with contextlib.redirect_stdout(buf):
        n = g.create_guesses(list(pt), **kw)
    text = buf.getvalue()
    lines = text.split('\n')
    if lines and lines[-1] == '':
        lines.pop()
    return lines, n


def run_mem(shard, tier, acc):
    _, si, ns = shard
    tree.use()
    G = tree.imp('lib_guesser.pcfg_grammar').PcfgGrammar
    for idx, (s, full, types) in enumerate(mem_cases(tier)):
        if idx % ns != si:
            continue
        g = R.mem_grammar(G, types, [(1.0, full)])
        for ivec in itertools.product(*[range(len(types[t])) for t in full]):
            pt = list(zip(full, ivec))
            acc.evals += 1
            try:
                lines, n = capture(g, pt)
            except Exception as e:
                acc.fail({'kind': 'mem', 'structure': s, 'types': types, 'pt': pt}, 'create_guesses raised %r' % (e,), 'raise')
                continue
            ref = R.expand_pt(types, pt)
            nontriv = len(ref) >= 2 or any('U' in m for t, i in pt if t[0] == 'C' for m in types[t][i][1])
            if nontriv:
                acc.nontrivial += 1
            msg = None
            if Counter(lines) != Counter(ref):
                msg = 'expansion of %r: got %r expected %r' % (pt, sorted(lines)[:8], sorted(ref)[:8])
                sig = 'expansion'
            elif n != len(lines):
                msg = 'create_guesses returned %r but wrote %d lines for %r' % (n, len(lines), pt)
                sig = 'count'
            if msg:
                acc.fail({'kind': 'mem', 'structure': s, 'types': types, 'pt': pt}, msg, sig)
            if idx % 41 == si and len(ref) > 2:
                acc.sample({'pt': pt, 'guesses': lines[:6], 'count': n}, cap=1)


def run_loader(tier, acc):
    tree.use()
    gio = tree.imp('lib_guesser.grammar_io')
    root = tree.mkdtemp('pcfgmc-c04-')
    maxlen = 5 if tier == 'quick' else 7
    for col in nonincreasing_columns(maxlen):
        acc.evals += 1
        rows = [('%d' % i, p) for i, p in enumerate(col)]
        path = os.path.join(root, 'f.txt')
        R.write_list(path, rows)
        sec = []
        import contextlib, io
        with contextlib.redirect_stderr(io.StringIO()):
            ok = gio._load_from_file(sec, path, 'utf-8')
        got = [(x['prob'], list(x['values'])) for x in sec]
        ref = R.group_rows(rows)
        if len(ref) < len(col):
            acc.nontrivial += 1
        if not ok or got != ref:
            acc.fail({'kind': 'loader', 'column': col}, 'loader grouping of column %r: got %r expected %r' % (col, got, ref), 'grouping')
    acc.sample({'kind': 'loader', 'column': [.5, .25, .25, .125], 'groups': R.group_rows([(str(i), p) for i, p in enumerate([.5, .25, .25, .125])])})
    # pre-terminals as the loader builds them: every base structure of a loaded ruleset (masks inserted by the loader) x every group index vector
    G = tree.imp('lib_guesser.pcfg_grammar').PcfgGrammar
    for ti, term in enumerate(D.TERMINALS[:3]):
        for st in D.STRUCTS:
            if st == 'M':
                continue
            spec = dict(term)
            spec.update(grammar=[(st, 1.0)], prince=D.PRINCE)
            rdir = os.path.join(root, 'r%d%s' % (ti, st))
            R.write_ruleset(rdir, spec)
            g = D.load(G, rdir, False, False, 'Grammar')
            types, base = R.ref_loaded(spec)
            want_reps = base[0][1]
            have_reps = list(g.base[0]['replacements'])
            case = {'kind': 'loaded', 'terminals': ti, 'structure': st}
            if have_reps != want_reps:
                acc.fail(case, 'structure %s is loaded as %r, expected %r' % (st, have_reps, want_reps), 'loaded-structure')
                continue
            for idx in itertools.product(*[range(len(types[r])) for r in want_reps]):
                acc.evals += 1
                pt = list(zip(want_reps, idx))
                ref = R.expand_pt(types, pt)
                lines, n = capture(g, pt)
                if len(ref) >= 2:
                    acc.nontrivial += 1
                if Counter(lines) != Counter(ref) or n != len(lines):
                    acc.fail(dict(case, pt=[list(x) for x in pt]), 'loaded pre-terminal %r expands to %r (count %r), expected %r' % (pt, sorted(lines)[:6], n, sorted(ref)[:6]), 'loaded-expansion')
                    break
            tree.rmtree(rdir)
    tree.rmtree(root)


def sweep_models(tier):
    """A deterministic slice of C10's exhaustive n-gram-2 model family (every 499th model; every 97th in thorough), in the on-disk model format."""
    from . import c10
    step = 499 if tier == 'quick' else 97
    for k, m in enumerate(c10.models_ngram2([0, 1, 2, None], [0, 1, 2, None], [0, 1, 2, None], [2, 3, 4])):
        if k % step:
            continue
        ln = [10] * 4
        for total_len, lvl in m['ln'].items():
            ln[total_len - 1] = lvl
        yield {'ngram': 2, 'alphabet': ['a', 'b'], 'ip': dict(m['ip']), 'ep': {}, 'cp': dict(m['cp']), 'ln': ln, 'top_level': 8}


def run_markov(tier, acc):
    tree.use()
    G = tree.imp('lib_guesser.pcfg_grammar').PcfgGrammar
    root = tree.mkdtemp('pcfgmc-c04m-')
    for mi, model in enumerate(OMEN_MODELS + list(sweep_models(tier))):
        levels = sorted({lvl for _, lvl in R.omen_strings(model) if 1 <= lvl <= model.get('top_level', 10)})
        variants = [('distinct', None)]
        if len(levels) >= 2:
            # two levels with exactly equal probability share a group (what the trainer writes for empty levels: 0.0)
            tied = [(L, 0.25 if i < 2 else 0.5 ** (i + 3)) for i, L in enumerate(levels)]
            variants.append(('tied', tied))
            zero = [(L, 0.5 ** (i + 2) if i < 2 else 0.0) for i, L in enumerate(levels)]
            variants.append(('zero-tied', zero))
        if len(levels) >= 3:
            # three levels in one group
            variants.append(('tied3', [(L, 0.125 if i < 3 else 0.5 ** (i + 4)) for i, L in enumerate(levels)]))
        if len(levels) >= 3:
            # a higher level that is more probable than a lower one (small or skewed training lists): the file lists level 3 before level 2
            order = [levels[0], levels[2], levels[1]] + levels[3:]
            variants.append(('level-order', [(L, 0.5 ** (i + 2)) for i, L in enumerate(order)]))
        for vname, op in variants:
            spec = dict(D.TERMINALS[0])
            m = dict(model)
            if op:
                m['omen_prob'] = op
            spec['omen'] = m
            spec['grammar'] = [('M', .5), ('D1', .5)]
            spec['prince'] = D.PRINCE
            rdir = os.path.join(root, 'r%d%s' % (mi, vname))
            R.write_ruleset(rdir, spec)
            try:
                g = D.load(G, rdir, False, False, 'Grammar')
            except Exception as e:
                acc.evals += 1
                acc.fail({'kind': 'markov', 'model': mi, 'variant': vname}, 'Markov model %d (alphabet %r, variant %s): the guesser cannot load the ruleset: %r'
                         % (mi, m['alphabet'], vname, e), 'markov-load')
                continue
            types, _ = R.ref_loaded(spec)
            for i, (p, vals) in enumerate(types['M']):
                acc.evals += 1
                pt = [('M', i)]
                ref = R.expand_pt(types, pt, omen=m)
                try:
                    lines, n = capture(g, pt)
                except Exception as e:
                    acc.fail({'kind': 'markov', 'model': mi, 'variant': vname, 'group': i, 'levels': vals},
                             'Markov group %d (levels %r): create_guesses raised %r' % (i, vals, e), 'raise')
                    continue
                if len(ref) >= 2:
                    acc.nontrivial += 1
                case = {'kind': 'markov', 'model': mi, 'variant': vname, 'group': i, 'levels': vals}
                if Counter(lines) != Counter(ref):
                    sig = 'markov-group-with-several-levels' if len(vals) > 1 and Counter(lines) == Counter(R.omen_level_set(m, int(vals[0]))) else 'markov-expansion'
                    acc.fail(case, 'Markov group %d (levels %r): got %d strings %r, expected %d %r' % (i, vals, len(lines), sorted(lines)[:6], len(ref), sorted(ref)[:6]), sig)
                elif n != len(lines):
                    acc.fail(case, 'Markov count %r != lines %d' % (n, len(lines)), 'count')
                elif len(vals) >= 2 and len(lines) <= 60:
                    # the same group under a guess limit (what -n hands down): the first min(N, total) of these lines, and a count that says so
                    for N in range(1, len(lines) + 2):
                        acc.evals += 1
                        try:
                            ll, nn = capture(g, pt, limit=N)
                        except Exception as e:
                            acc.fail(dict(case, limit=N), 'Markov group %d (levels %r) with limit %d: create_guesses raised %r' % (i, vals, N, e), 'raise')
                            break
                        if ll != lines[:N] or nn != len(ll):
                            acc.fail(dict(case, limit=N), 'Markov group %d (levels %r) with limit %d: wrote %d lines (count says %r), the group holds %d; first difference at line %d'
                                     % (i, vals, N, len(ll), nn, len(lines), next((k for k, (x, y) in enumerate(zip(ll, lines)) if x != y), min(len(ll), len(lines)))), 'markov-limit')
                            break
                acc.sample({'kind': 'markov', 'levels': vals, 'guesses': lines[:5]}, cap=3)
    tree.rmtree(root)


def run_shard(shard, tier, acc):
    if shard[0] == 'mem':
        run_mem(shard, tier, acc)
    elif shard[0] == 'loader':
        run_loader(tier, acc)
    else:
        run_markov(tier, acc)


def replay(case):
    from ..runner import Acc
    acc = Acc()
    if case['kind'] == 'mem':
        tree.use()
        G = tree.imp('lib_guesser.pcfg_grammar').PcfgGrammar
        types = {t: [(p, list(v)) for p, v in groups] for t, groups in case['types'].items()}
        pt = [tuple(x) for x in case['pt']]
        g = R.mem_grammar(G, types, [(1.0, [t for t, _ in pt])])
        lines, n = capture(g, pt)
        ref = R.expand_pt(types, pt)
        if Counter(lines) != Counter(ref):
            return 'expansion differs: %r vs %r' % (sorted(lines)[:8], sorted(ref)[:8])
        if n != len(lines):
            return 'count %r != %d lines' % (n, len(lines))
        return None
    if case['kind'] in ('loader', 'loaded'):
        run_loader('thorough', acc)
    else:
        run_markov('quick', acc)
        if not [f for f in acc.failures if f['case'] == case]:
            run_markov('thorough', acc)
    fs = [f for f in acc.failures if f['case'] == case or case['kind'] == 'loader']
    return fs[0]['msg'] if fs else None
