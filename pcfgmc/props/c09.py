"""C09 — stdout is exactly the guess stream; --limit N is exact (also inside a pre-terminal / Markov level,
also on a resumed session)."""
import itertools
import os
from collections import Counter

from .. import tree
from .. import rulesets as R
from .. import session as S
from . import queue_disk as D
from . import status_common as ST

ID = 'C09'
LEVEL = 'exploration'
RULE = ('bounded-exhaustive: for every ruleset of a small on-disk family x {skip_brute, all_lower}^2 x mode, pcfg_guesser.main() is run '
        'in-process for EVERY N in 1..total+2 and stdout(N) is compared with the first min(N,total) lines of the unlimited run; every line must be a '
        'member of the reference language; resumed sessions (saved at every guess position of a run that contains a Markov level) are run under every N too; '
        'status layer: the real keypress()/StatusReport body is run after every guess position under every combination of 0/1/2 days, hours, minutes, seconds on the session '
        'clock (fresh and resumed sessions, status / help / quit requests) and stdout must stay the guess stream; '
        'non-trivial = N strictly inside a pre-terminal with >= 2 guesses or inside a Markov level, or a status request that printed a report')
ASSUMPTIONS = ['queue bound: on one ruleset of eight equally probable single-guess structures every -n run is repeated with PcfgQueue.max_queue_size (initialised to 50000 "for memory management" and not used by today\'s code) set to 1, 2, 3, 5 by the driver - a bound on the queue may drop entries that can no longer be reached, it must not change the first N lines',
               'only valid configurations are quantified over (well-formed ruleset, N >= 1); messages printed to stdout on error paths are out of scope',
               'honeywords mode (unseeded) is checked for line count and language membership only; random_walk additionally for the prefix property']

OMEN_B = {'ngram': 2, 'alphabet': ['a', 'b', 'c'], 'ip': {'a': 0, 'b': 1, 'c': 2}, 'ep': {},
          'cp': {'aa': 1, 'ab': 0, 'ac': 2, 'ba': 0, 'bc': 1, 'ca': 0, 'cc': 3}, 'ln': [5, 1, 0, 2],
          'keyspace': {1: 3, 2: 8, 3: 13}, 'omen_prob': [(1, .125), (2, .0625), (3, .03125)]}
OMEN_A = dict(R.DEFAULT_OMEN, keyspace={1: 3, 2: 3, 3: 2}, omen_prob=[(1, .125), (2, .0625), (3, .03125)])
# levels of equal probability form ONE Markov pre-terminal: the limit has to be carried from level to level inside it
OMEN_T = dict(R.DEFAULT_OMEN, keyspace={1: 3, 2: 3, 3: 2}, omen_prob=[(1, .125), (2, .125), (3, .03125)])
# ... three and four levels in one pre-terminal: what is left of the limit after the second level is not what was left after the first
OMEN_T3 = dict(R.DEFAULT_OMEN, keyspace={1: 3, 2: 3, 3: 2}, omen_prob=[(1, .125), (2, .125), (3, .125)])
OMEN_T4 = {'ngram': 2, 'alphabet': ['x', 'y', 'z'], 'ip': {'x': 0, 'y': 0, 'z': 1}, 'ep': {},
           'cp': {'xx': 0, 'xy': 0, 'xz': 0, 'yx': 1, 'yy': 1, 'zx': 0, 'zy': 0, 'zz': 2}, 'ln': [10, 0, 1],
           'keyspace': {1: 1, 2: 1, 3: 1, 4: 1}, 'omen_prob': [(1, .25), (2, .125), (3, .125), (4, .125), (5, .125)]}
OMEN_0 = dict(OMEN_B, omen_prob=[(1, .125), (2, 0.0), (3, 0.0)])
# an OMEN model trained on mixed-case passwords generates mixed-case strings, with or without --all_lower
OMEN_U = {'ngram': 2, 'alphabet': ['a', 'B'], 'ip': {'a': 0, 'B': 1}, 'ep': {}, 'cp': {'aa': 0, 'aB': 1, 'Ba': 0, 'BB': 2}, 'ln': [10, 0, 1],
          'keyspace': {1: 3, 2: 3, 3: 2}, 'omen_prob': [(1, .125), (2, .0625), (3, .03125)]}


def specs(tier):
    t0, t1 = D.TERMINALS[0], D.TERMINALS[1]
    tie = dict(t0)
    tie['C'] = {1: [('L', .5), ('U', .5)], 2: [('LL', .25), ('UL', .25), ('LU', .25), ('UU', .25)]}
    tie['A'] = {1: [('a', .5), ('b', .5)], 2: [('ab', .5), ('cd', .5)]}
    cands = [
        (t0, [('M', .5), ('A1D1', .3), ('D2', .2)], OMEN_A),
        (t0, [('A1D1', .5), ('M', .3), ('D2', .2)], OMEN_B),
        (t1, [('D1D1', .6), ('A2A1', .4)], OMEN_A),
        (t0, [('A2', .5), ('M', .5)], OMEN_A),
        (t1, [('A1O1A2', .7), ('M', .2), ('Y1O1', .1)], OMEN_A),
        (t0, [('D1', 1.0)], OMEN_A),
        (t0, [('A2A1', .6), ('A2D1', .4)], OMEN_A),   # multi-mask C2 group followed by more variables
        (tie, [('A2D1', .6), ('A1A2', .4)], OMEN_A),  # mask groups of 4 and 2 equally probable masks, not in last position
        (t0, [('M', .5), ('A1D1', .5)], OMEN_T),
        (t0, [('M', .6), ('A1', .4)], OMEN_U),
        # structures that END in two plain replacements, both with groups of several equally probable values (2 x 2 and 2 x 2 strings per pre-terminal)
        (t0, [('D1O1', .5), ('Y1O1', .3), ('O1D1', .2)], OMEN_A),
        (t0, [('M', .5), ('A1D1', .5)], OMEN_T3),
        (t0, [('D1', .4), ('M', .6)], OMEN_T4),
        (t0, [('D2', .5), ('M', .5)], OMEN_0),
        # many single-guess pre-terminals of one probability: whatever the queue does to bound its memory, the order among them must not depend on -n
        (t0, [(st, 1 / 8) for st in ('D2', 'K4', 'X1', 'D2K4', 'K4D2', 'D2X1', 'X1K4', 'K4X1')], OMEN_A),
    ]
    if tier == 'thorough':
        cands += [
            (t1, [('M', .4), ('A2A1', .3), ('K4X1', .3)], OMEN_B),
            (t0, [('A1A1', .5), ('D1A1', .25), ('M', .25)], OMEN_B),
            (t1, [('D1D1', .5), ('D1D1', .5)], OMEN_A),
        ]
    out = []
    for term, gr, om in cands:
        spec = dict(term)
        spec['grammar'] = gr
        spec['prince'] = D.PRINCE
        spec['omen'] = om
        out.append(spec)
    # a latin-1 ruleset with letters whose capital lies outside latin-1 (micro sign -> Greek capital mu, y with diaeresis -> U+0178): every guess is
    # written and counted, whatever the ruleset's encoding
    lat = dict(t0)
    lat.update(A={2: [('\u00b5a', .6), ('\u00ffb', .4)], 1: [('a', 1.0)]}, C={2: [('UL', .5), ('LL', .3), ('LU', .2)], 1: [('L', 1.0)]},
               grammar=[('A2', .6), ('D1', .4)], prince=D.PRINCE, omen=OMEN_A, encoding='latin-1')
    out.append(lat)
    return out


MODES = ['true_prob_order', 'random_walk', 'honeywords']


def shards(tier):
    n = len(specs(tier))
    sh = [('fresh', i, sb, sc, mode) for i in range(n) for sb in (0, 1) for sc in (0, 1) for mode in MODES]
    sh += [('resume', i, k, 8) for i in range(n) for k in range(8)]
    sh += ST.shards()
    sh.append(('processes', 0))
    return sh


def bounds(tier):
    return {'rulesets': len(specs(tier)), 'flags': 'skip_brute x all_lower', 'modes': MODES,
            'N': 'every N in 1..total+2 (never-ending modes: 1..total+5 against the N_max run)',
            'resume': 'states saved at every guess position j of the default run; --load under every N', **ST.bounds(tier)}


def language(spec, sb, sc):
    types, base = R.ref_loaded(spec, bool(sb), bool(sc))
    lang = Counter()
    sizes = []
    for bp, reps in base:
        for idx in itertools.product(*[range(len(types[r])) for r in reps]):
            pt = list(zip(reps, idx))
            g = R.expand_pt(types, pt, omen=spec['omen'])
            sizes.append(len(g))
            lang.update(g)
    return lang, sizes


def flags_argv(sb, sc):
    return (['--skip_brute'] if sb else []) + (['--all_lower'] if sc else [])


def check_stdout(lines, lang, what):
    bad = [l for l in lines if l not in lang]
    if bad:
        return 'stdout of %s contains %d line(s) that are not guesses of the ruleset, first: %r (line %d)' % (what, len(bad), bad[0], lines.index(bad[0]) + 1)
    return None


def run_fresh(shard, tier, acc):
    _, i, sb, sc, mode = shard
    spec = specs(tier)[i]
    td = tree.scratch_tree()
    R.write_ruleset(os.path.join(td, 'Rules', 'v'), spec)
    lang, sizes = language(spec, sb, sc)
    total = sum(lang.values())
    case = {'kind': 'fresh', 'spec_index': i, 'spec': spec, 'skip_brute': sb, 'all_lower': sc, 'mode': mode}
    base_argv = ['-r', 'v', '-m', mode] + flags_argv(sb, sc)
    if mode == 'true_prob_order':
        full = S.run_guesser(td, base_argv)
        acc.evals += 1
        if full.exc:
            acc.fail(case, 'unlimited run raised %s' % full.exc.strip().splitlines()[-1], 'raise')
            tree.rmtree(td)
            return
        msg = check_stdout(full.stdout, lang, 'the unlimited run')
        if msg:
            acc.fail(dict(case, N=None), msg, 'stdout-not-a-guess:' + repr(full.stdout[0])[:20] if full.stdout and full.stdout[0] not in lang else 'stdout-not-a-guess')
        ref = [l for l in full.stdout if l in lang]
        if len(ref) != total:
            acc.fail(dict(case, N=None), 'unlimited run wrote %d guess lines, the language has %d' % (len(ref), total), 'total')
        nmax = total + 2
    else:
        nmax = min(total, 12) + 5
        full = S.run_guesser(td, base_argv + ['-n', str(nmax)])
        acc.evals += 1
        if full.exc:
            acc.fail(case, '-n %d run raised %s' % (nmax, full.exc.strip().splitlines()[-1]), 'raise')
            tree.rmtree(td)
            return
        ref = [l for l in full.stdout if l in lang]
    # boundaries of pre-terminals in the reference stream, to classify N
    caps = [None]
    if mode == 'true_prob_order' and len(spec['grammar']) == 8 and not sb and not sc:      # the ruleset with eight equally probable single-guess structures
        caps = [None, 1, 2, 3, 5]       # PcfgQueue.max_queue_size scaled down: a bound on the queue may drop entries, never reorder the first N
    for N, cap in itertools.product(range(1, nmax + 1), caps):
        S.clear_session(td)
        r = S.run_guesser(td, base_argv + ['-n', str(N)], queue_cap=cap)
        acc.evals += 1
        c = dict(case, N=N, queue_cap=cap)
        if r.exc:
            acc.fail(c, '-n %d raised %s' % (N, r.exc.strip().splitlines()[-1]), 'raise')
            continue
        msg = check_stdout(r.stdout, lang, '-n %d' % N)
        if msg:
            acc.fail(c, msg, 'stdout-not-a-guess')
        got = [l for l in r.stdout if l in lang] if msg else r.stdout
        want_n = min(N, total) if mode == 'true_prob_order' else N
        if len(got) != want_n:
            acc.fail(c, '-n %d wrote %d guess lines, expected %d (mode %s)' % (N, len(got), want_n, mode), 'limit-count')
        elif mode != 'honeywords' and got != ref[:want_n]:
            acc.fail(c, '-n %d is not a prefix of the unlimited run: %r vs %r' % (N, got[-3:], ref[:want_n][-3:]), 'limit-prefix')
        if mode == 'true_prob_order' and r.events:
            # N falls strictly inside the last pre-terminal it reached
            if r.events[-1][0] == 'pt' and 0 < r.events[-1][2] and N < total:
                pt = r.events[-1][1]
                full_n = next((e[2] for e in full.events if e[1] == pt), None)
                if full_n and r.events[-1][2] < full_n:
                    acc.nontrivial += 1
        elif mode != 'true_prob_order' and N > 1:
            acc.nontrivial += 1
    acc.sample({'kind': 'fresh', 'grammar': spec['grammar'], 'flags': flags_argv(sb, sc), 'mode': mode, 'total': total,
                'first_lines': full.stdout[:5]}, cap=1)
    tree.rmtree(td)


def run_resume(shard, tier, acc):
    _, i, jk, jn = shard
    spec = specs(tier)[i]
    if not any(s == 'M' for s, _ in spec['grammar']):
        return
    td = tree.scratch_tree()
    R.write_ruleset(os.path.join(td, 'Rules', 'v'), spec)
    lang, sizes = language(spec, 0, 0)
    total = sum(lang.values())
    case = {'kind': 'resume', 'spec_index': i, 'spec': spec}
    seen = set()
    for j in range(jk, total, jn):
        S.clear_session(td)
        A = S.run_guesser(td, ['-r', 'v'], quit_after=j)
        acc.evals += 1
        if A.exc or not A.fired or A.sav is None:
            continue
        key = (tuple(sorted(A.sav.items())), A.omn)
        if key in seen:
            continue
        seen.add(key)
        in_omen = 'guessing_info.omen_guess_number' in A.sav
        B = S.run_guesser(td, ['-r', 'v', '--load'])
        acc.evals += 1
        if B.exc:
            acc.fail(dict(case, j=j), '--load after quit at %d raised %s' % (j, B.exc.strip().splitlines()[-1]), 'raise')
            continue
        msg = check_stdout(B.stdout, lang, '--load after quit at guess %d' % j)
        if msg:
            acc.fail(dict(case, j=j, N=None), msg, 'stdout-not-a-guess')
        ref = [l for l in B.stdout if l in lang]
        for N in range(1, len(ref) + 2):
            S.set_session(td, A.sav_raw, A.omn)
            r = S.run_guesser(td, ['-r', 'v', '--load', '-n', str(N)])
            acc.evals += 1
            c = dict(case, j=j, N=N)
            if r.exc:
                acc.fail(c, '--load -n %d raised %s' % (N, r.exc.strip().splitlines()[-1]), 'raise')
                continue
            got = [l for l in r.stdout if l in lang]
            want = min(N, len(ref))
            if in_omen and N < len(ref):
                acc.nontrivial += 1
            if len(got) != want:
                acc.fail(c, 'resumed session (quit at guess %d%s) with -n %d wrote %d guess lines, expected %d'
                         % (j, ', inside a Markov level' if in_omen else '', N, len(got), want),
                         'resume-limit-count' + ('-omen' if in_omen else ''))
            elif got != ref[:want]:
                acc.fail(c, 'resumed -n %d is not a prefix of the unlimited resumed run' % N, 'resume-limit-prefix')
    acc.sample({'kind': 'resume', 'grammar': spec['grammar'], 'saved_states': len(seen)}, cap=1)
    tree.rmtree(td)


def run_processes(tier, acc):
    """--limit N in one process against the unlimited run of ANOTHER process (different string-hash seeds), on a ruleset with repeated values."""
    import subprocess
    import sys
    td = tree.scratch_tree()
    R.write_ruleset(os.path.join(td, 'Rules', 'v'), D.dup_spec())

    def cli(seed, extra):
        env = dict(os.environ, PYTHONHASHSEED=seed)
        r = subprocess.run([sys.executable, '-B', os.path.join(td, 'pcfg_guesser.py'), '-r', 'v'] + extra, stdin=subprocess.DEVNULL, capture_output=True, env=env, timeout=300)
        for ext in ('.sav', '.omn'):
            pth = os.path.join(td, 'default_run' + ext)
            if os.path.exists(pth):
                os.unlink(pth)
        return r.stdout.decode('utf-8', 'replace').split('\n')[:-1]
    full = cli('1', [])
    acc.evals += 1
    total = len(full)
    for seed in ('2', '3', '4'):
        for N in sorted({2, 5, 9, total // 2, total - 1, total}):
            if N < 1:
                continue
            got = cli(seed, ['-n', str(N)])
            acc.evals += 1
            acc.nontrivial += 1
            if got != full[:N]:
                acc.fail({'kind': 'processes', 'N': N, 'seed': seed}, 'pcfg_guesser -n %d (process with PYTHONHASHSEED=%s) is not the first %d lines of the unlimited run of another process: %r vs %r'
                         % (N, seed, N, got[-3:], full[:N][-3:]), 'limit-prefix-across-processes')
    tree.rmtree(td)


def run_shard(shard, tier, acc):
    if shard[0] == 'processes':
        return run_processes(tier, acc)
    if shard[0] == 'status':
        ST.run(shard, tier, acc)
    elif shard[0] == 'fresh':
        run_fresh(shard, tier, acc)
    else:
        run_resume(shard, tier, acc)


def replay(case):
    from ..runner import Acc
    acc = Acc()
    # re-run the (small) shard the case came from and look for the same N
    tier = 'thorough'
    if case.get('layer') == 'status':
        return ST.replay(case)
    if case.get('kind') == 'processes':
        run_processes('quick', acc)
        fs = [f for f in acc.failures if f['case'] == case]
        return fs[0]['msg'] if fs else None
    if case['kind'] == 'fresh':
        run_fresh(('fresh', case['spec_index'], case['skip_brute'], case['all_lower'], case['mode']), tier, acc)
    else:
        run_resume(('resume', case['spec_index'], case['j'], 10 ** 6), tier, acc)
    for f in acc.failures:
        if f['case'].get('N') == case.get('N') and f['case'].get('j') == case.get('j') and f['case'].get('queue_cap') == case.get('queue_cap'):
            return f['msg']
    return None
