"""C06 — the saved grammar is the relative-frequency model of the segmentation; training is deterministic."""
import itertools
import json
import os
import subprocess
import sys
from collections import Counter

from .. import tree
from .. import pipeline as P
from . import c03

ID = 'C06'
LEVEL = 'exploration'
RULE = ('bounded-exhaustive over training lists (pool singletons/pairs with multiplicities, tie and single-item scenarios, lists dominated by e-mail/website structures) x coverage {0,.25,.5,.6,1}: '
        'each list is trained with the real run_trainer; every terminal/mask/base-structure/PRINCE file is parsed by an independent reader and compared with an independent tally of the real segmentation: '
        'same keys once each, float(text) == count/total, descending, sum 1, Markov pseudo-count N(1/c-1), E/W structures only in raw_grammar; each list is trained twice in-process and a slice in two '
        'subprocesses with different PYTHONHASHSEED: byte-identical modulo uuid; non-trivial = list producing >= 2 distinct items in some file')
ASSUMPTIONS = ['the segmentation itself is taken from the real parser (its soundness is C05); the tallies and the file reader are independent of repo code',
               'e-mail / website helper lists (Emails/, Websites/) are not among the lists the property names and are only checked for determinism']
NSHARDS = 32

EXTRA = [
    ['aa1', 'bb1', 'cc2', 'dd2'],                       # count ties everywhere
    ['mydogatemyhomework77!!', 'mydogatemyhomework77!!', 'abcdefghijklmnopqrstu', 'abcdefghijklmnopqrstuv', 'short1', 'short1', '1234567890123456789012'],   # longer than the OMEN limit (21)
    ['say"hi"', 'x"!"y', "it's", 'a\\b', 'c,d', 'e;f', '"', "'", 'g|h', '#x', ' "q" '],   # quote, escape and separator characters of common file formats
    ['password1'] * 3 + ['letmein1'] * 3 + ['x1'],
    ['bob@gmail.com'] * 5 + ['www.site.com'] * 3 + ['pass12'],   # unsupported structures dominate
    ['bob@gmail.com', 'al@yahoo.com', 'www.x.org'],           # only unsupported
    ['a'] + ['bbbb'] * 2 + ['1'] + ['2222'] * 2 + ['!'],
    ['Pass', 'pAss', 'paSs', 'pasS', 'pass', 'PASS'] * 2,
    ['2019', '1999', '2019abcd', 'abcd1999x'],
    ['<3you', 'no.1', '#1abc', ';p;p'],
    ['1qaz', '1qaz2wsx', 'qwer1234', 'asdfasdf1'],
    # e-mail / website sections that are NOT the last section of the password
    ['bob@gmail.com123', 'carol@yahoo.com!', 'www.site.com99', 'pass12', 'pass12', '12www.site.org', 'x1bob@gmail.com'],
    ['al@a.com1', 'http://www.b.net/x 1', 'letmein'],
    # several different sections of the same kind and length inside ONE password, all with tied counts (order among ties must not depend on hashing)
    ['kot7pes', '12ab34', '!!a??', 'hax1juk', 'dac2nep', 'paw3fig', '56cd78', '##b$$', 'Kot7Pes'],
    # capitals that lower-casing leaves as they are (their lower case is longer, or does not exist): the mask still says U
    ['\u0130stanbul', 'istanbul', '\u0130brahim1453', '\u0130STANBUL', '\u211deal12', 'Istanbul', 'istanbul'],
]
# the same terminal more than once in ONE password: a tally counts segments, not passwords (year, context string, walk, word, digits, symbols)
EXTRA.append(['2010love2010', '1987-1987', '2010abc', 'x1999', '1999-2001', '#1fan#1', '<3x<3', '1qaz!1qaz', 'pass7pass', 'Pass7pass', '12ab12', '!!x!!', '2001'])
COVERAGES = [0.6, 1.0, 0.0, 0.25, 0.5]


def cases(tier):
    pool = c03.POOL_Q if tier == 'quick' else c03.POOL_T
    lists = []
    for a in pool:
        lists.append([a])
        lists.append([a] * 5)
    step = 1 if tier == 'thorough' else 2
    for a, b in list(itertools.combinations(pool, 2))[::step]:
        lists.append([a, b])
        lists.append([a] * 5 + [b])
    lists.extend(c03.SCENARIOS)
    lists.extend(EXTRA)
    for i, l in enumerate(lists):
        yield l, dict(coverage=0.6)
    for l in c03.SCENARIOS + EXTRA + [[a, b] for a, b in itertools.combinations(pool[:8], 2)]:
        for c in COVERAGES[1:]:
            yield l, dict(coverage=c)
    # the rarely used trainer options: a pre-trained multi-word detector changes the segmentation (and so every tally), --save_sensitive must not
    for l in c03.SCENARIOS + EXTRA:
        yield l, dict(coverage=0.6, multiword_words=['pass', 'word', 'love', 'you', 'blue', 'fish', 'abcd', 'test'])
        yield l, dict(coverage=0.5, save_sensitive=True)
        yield l, dict(coverage=0.95)
    # rulesets in encodings that put a byte-order mark in front of a file (ONE per file)
    for l in c03.SCENARIOS[:3] + EXTRA[:3] + EXTRA[-1:]:
        for enc in ('utf-16', 'utf-8-sig', 'utf-32'):
            yield l, dict(coverage=0.6, encoding=enc)
    # a code page that lacks the small letter of some of its capitals: refused, or saved completely
    yield ['\u0393amma7', 'password1', 'Pass\u03a9', 'alpha12', 'alpha12'], dict(coverage=0.6, encoding='cp437')
    # coverages next to the two special values (exactly 0: Markov only, exactly 1: no Markov structure) are ordinary coverages
    for l in c03.SCENARIOS[:4] + EXTRA[:4]:
        for c in (1e-10, 1e-6, 0.9999999999, 0.999999):
            yield l, dict(coverage=c)


# number of DISTINCT items in one saved list: round numbers of the kind a writer that buffers or blocks its output would use, and their neighbours
BIG_SIZES = {'quick': [255, 256, 257, 1000, 1024, 4095, 4096, 4097, 8192, 10000], 'thorough': [255, 256, 257, 512, 1000, 1024, 2048, 4095, 4096, 4097, 8191, 8192, 10000, 16384, 32768, 65536]}


def big_list(k):
    """k distinct five-digit strings (one list file with exactly k lines), the first ones repeated, behind a few ordinary passwords"""
    lines = ['password1', 'Password1', 'letmein!', 'qwerty12']
    for i in range(k):
        lines += ['%05d' % (10000 + i)] * (3 if i < 2 else 2 if i < 5 else 1)
    return lines


def shards(tier):
    return [('t', i, NSHARDS) for i in range(NSHARDS)] + [('subproc', 0, 1), ('cli', 0, 1)] + [('big', k, 1) for k in BIG_SIZES[tier]]


def run_big(shard, tier, acc):
    k = shard[1]
    tree.use()
    wd = tree.mkdtemp('pcfgmc-c06b-')
    lines = big_list(k)
    opts = dict(coverage=0.6)
    acc.evals += 1
    acc.nontrivial += 1
    case = {'layer': 'big', 'distinct_items': k}
    ok, base, out, pi = P.train(wd, lines, rule='big', **opts)
    if ok is not True:
        acc.fail(case, 'big: training a list with %d distinct five-digit strings did not complete' % k, 'big-train')
    else:
        msgs, distinct = check_ruleset(base, lines, opts)
        for m in msgs[:3]:
            acc.fail(case, 'big (%d distinct items in Digits/5.txt): %s' % (k, m), 'big:' + m.split(':')[0].split('/')[0])
    acc.sample({'layer': 'big', 'distinct_items_in_one_file': BIG_SIZES[tier]}, cap=1)
    tree.rmtree(wd)


def bounds(tier):
    return {'pool': c03.POOL_Q if tier == 'quick' else c03.POOL_T, 'extra_lists': EXTRA, 'coverages': COVERAGES,
            'determinism': 'every list trained twice in-process; %d lists in three subprocesses (PYTHONHASHSEED 1, 2, 3)' % (4 if tier == 'quick' else 12)}


def lower_ref(s):
    """Reference lower-casing of a word: str.lower(), except that characters whose lower case is longer than one character
    (U+0130) are kept, so that a word and its capitalisation mask keep the length of the section."""
    low = s.lower()
    if len(low) == len(s):
        return low
    return ''.join(c.lower() if len(c.lower()) == 1 else c for c in s)


def mask_of(s):
    return ''.join('U' if ch.isupper() else 'L' for ch in s)


def tally(seg_items, lines):
    t = {'A': {}, 'C': {}, 'D': {}, 'O': {}, 'K': {}, 'Y': Counter(), 'X': Counter(),
         'base': Counter(), 'raw': Counter(), 'prince': Counter()}
    for pw in lines:
        sup, bs, sections = seg_items[pw]
        labels = []
        for val, lab in sections:
            k = lab[0]
            labels.append(lab)
            t['prince'][lab] += 1
            if k == 'A':
                t['A'].setdefault(len(val), Counter())[lower_ref(val)] += 1
                t['C'].setdefault(len(val), Counter())[mask_of(val)] += 1
            elif k in 'DOK':
                t[k].setdefault(len(val), Counter())[val] += 1
            elif k in 'YX':
                t[k][val] += 1
        s = ''.join(labels)
        t['raw'][s] += 1
        if not any(l[0] in 'EW' for l in labels):
            t['base'][s] += 1
    return t


def check_file(path, counter, enc, what, extra_total=0.0):
    """-> list of messages"""
    msgs = []
    if not os.path.exists(path):
        return ['%s: file %s is missing' % (what, os.path.basename(path))]
    rows = P.read_list(path, enc)
    keys = [v for v, _ in rows]
    if Counter(keys) != Counter({k: 1 for k in counter}):
        dup = [k for k, n in Counter(keys).items() if n > 1][:3]
        miss = [k for k in counter if k not in keys][:3]
        extra = [k for k in keys if k not in counter][:3]
        msgs.append('%s: keys differ from the tally: missing %r, unexpected %r, duplicated %r' % (what, miss, extra, dup))
        return msgs
    total = sum(counter.values()) + extra_total
    prev = None
    ssum = 0.0
    for v, ptxt in rows:
        try:
            p = float(ptxt)
        except ValueError:
            msgs.append('%s: probability text %r of %r is not a float' % (what, ptxt, v))
            break
        want = counter[v] / total
        if abs(p - want) > 2e-16 * max(want, 1e-300) * 4:
            msgs.append('%s: %r has probability %r, tally says %d/%s = %r' % (what, v, p, counter[v], total, want))
            break
        if prev is not None and p > prev:
            msgs.append('%s: not in descending order at %r' % (what, v))
            break
        prev = p
        ssum += p
    if not msgs and rows and not extra_total and abs(ssum - 1.0) > len(rows) * 2.3e-16:
        msgs.append('%s: probabilities sum to %r' % (what, ssum))
    return msgs


def check_ruleset(base, lines, opts, enc='utf-8'):
    seg, parser = c03.segment(lines, opts.get('multiword_words'))
    t = tally(seg, lines)
    msgs = []
    folders = {'A': 'Alpha', 'C': 'Capitalization', 'D': 'Digits', 'O': 'Other', 'K': 'Keyboard'}
    distinct = 0
    for k, folder in folders.items():
        have = sorted(os.listdir(os.path.join(base, folder)))
        want = sorted('%d.txt' % n for n in t[k])
        if have != want:
            msgs.append('%s: files %r, tally needs %r' % (folder, have, want))
            continue
        for n, ctr in t[k].items():
            distinct = max(distinct, len(ctr))
            msgs += check_file(os.path.join(base, folder, '%d.txt' % n), ctr, enc, '%s/%d.txt' % (folder, n))
    msgs += check_file(os.path.join(base, 'Years', '1.txt'), t['Y'], enc, 'Years/1.txt')
    msgs += check_file(os.path.join(base, 'Context', '1.txt'), t['X'], enc, 'Context/1.txt')
    msgs += check_file(os.path.join(base, 'Prince', 'grammar.txt'), t['prince'], 'ascii', 'Prince/grammar.txt')
    msgs += check_file(os.path.join(base, 'Grammar', 'raw_grammar.txt'), t['raw'], 'ascii', 'Grammar/raw_grammar.txt')
    distinct = max(distinct, len(t['base']), len(t['prince']))
    # base structures with the Markov pseudo-count
    cov = opts.get('coverage', 0.6)
    N = len(lines)
    rows = P.read_list(os.path.join(base, 'Grammar', 'grammar.txt'), 'ascii')
    keys = [v for v, _ in rows]
    if cov == 1:
        msgs += check_file(os.path.join(base, 'Grammar', 'grammar.txt'), t['base'], 'ascii', 'Grammar/grammar.txt')
        if 'M' in keys:
            msgs.append('Grammar/grammar.txt: Markov structure present although coverage is 1')
    elif cov == 0:
        if keys != ['M'] or float(rows[0][1]) != 1.0:
            msgs.append('Grammar/grammar.txt: coverage 0 must leave only the Markov structure with probability 1, got %r' % (rows[:3],))
    else:
        pseudo = N * (1.0 / cov - 1.0)
        ctr = Counter(t['base'])
        if 'M' not in keys:
            msgs.append('Grammar/grammar.txt: Markov structure missing for coverage %r' % cov)
        else:
            total = sum(ctr.values()) + pseudo
            pm = float(dict(rows)['M'])
            if abs(pm - pseudo / total) > 1e-12:
                msgs.append('Grammar/grammar.txt: P(M) = %r, expected pseudo-count %r / %r = %r' % (pm, pseudo, total, pseudo / total))
            others = [(v, p) for v, p in rows if v != 'M']
            if Counter(v for v, _ in others) != Counter({k: 1 for k in ctr}):
                msgs.append('Grammar/grammar.txt: structures %r, tally %r' % (sorted(v for v, _ in others)[:6], sorted(ctr)[:6]))
            else:
                for v, ptxt in others:
                    if abs(float(ptxt) - ctr[v] / total) > 1e-12:
                        msgs.append('Grammar/grammar.txt: %s has %r, expected %d/%r' % (v, ptxt, ctr[v], total))
                        break
                ps = [float(p) for _, p in rows]
                if any(b > a for a, b in zip(ps, ps[1:])):
                    msgs.append('Grammar/grammar.txt: not in descending order')
                if abs(sum(ps) - 1.0) > 1e-12:
                    msgs.append('Grammar/grammar.txt: probabilities sum to %r' % sum(ps))
    if any(any(ch in v for ch in 'EW') for v in keys):
        msgs.append('Grammar/grammar.txt lists a structure with an e-mail/website section: %r' % [v for v in keys if 'E' in v or 'W' in v][:3])
    return msgs, distinct


def run_t(shard, tier, acc):
    _, si, ns = shard
    tree.use()
    wd = tree.mkdtemp('pcfgmc-c06-')
    for idx, (lines, opts) in enumerate(cases(tier)):
        if idx % ns != si:
            continue
        acc.evals += 1
        case = {'lines': lines, 'opts': opts}
        ok, base, out, pi = P.train(wd, lines, rule='a', **opts)
        if ok is not True:
            acc.count('training_did_not_complete')
            continue
        msgs, distinct = check_ruleset(base, lines, opts, enc=opts.get('encoding', 'utf-8'))
        if distinct >= 2:
            acc.nontrivial += 1
        for m in msgs[:3]:
            acc.fail(case, m, m.split(':')[0].split('/')[0])
        ok2, base2, _, _ = P.train(wd, lines, rule='b', **opts)
        ta, tb = P.tree_bytes(base), P.tree_bytes(base2)
        if ta != tb:
            diff = [k for k in set(ta) | set(tb) if ta.get(k) != tb.get(k)]
            acc.fail(case, 'two trainings of the same list differ in %r' % diff[:4], 'nondeterministic')
        if idx % 7 == 0:
            # re-training into a rule directory that already holds another ruleset must leave exactly the new ruleset
            other = ['Zebra99!', 'q1w2e3r4', 'x' * 9, '2001-1999', 'mr.t', 'abc@def.org', '77 77']
            P.train(wd, other, rule='re', **opts)
            ok3, base3, _, _ = P.train(wd, lines, rule='re', keep_existing=True, **opts)
            acc.evals += 1
            if ok3 is True:
                tc = P.tree_bytes(base3)
                if tc != ta:
                    diff = sorted(k for k in set(tc) | set(ta) if tc.get(k) != ta.get(k))
                    acc.fail(case, 're-training over an existing rule directory differs from a fresh training in %r' % diff[:5], 'retrain-stale')
        if idx % 61 == si:
            acc.sample({'training_list': lines[:10], 'opts': opts, 'files_checked': len(ta)}, cap=1)
    tree.rmtree(wd)


SUB = r'''
import sys, json
sys.path.insert(0, %r)
from pcfgmc import tree, pipeline
tree.use()
job = json.load(open(sys.argv[1]))
ok, base, out, pi = pipeline.train(job['wd'], job['lines'], rule=job['rule'], **job['opts'])
print('OK' if ok is True else 'FAIL')
'''


def run_subproc(tier, acc):
    wd = tree.mkdtemp('pcfgmc-c06s-')
    lists = [(c03.SCENARIOS[0], {}), (EXTRA[0], {}), (EXTRA[2], dict(coverage=0.25)), (c03.SCENARIOS[3], {}), (EXTRA[-1], {})]
    if tier == 'thorough':
        lists += [(l, {}) for l in c03.SCENARIOS[1:6] + EXTRA[3:]]
    verif = os.path.dirname(os.path.dirname(os.path.dirname(os.path.abspath(__file__))))
    for i, (lines, opts) in enumerate(lists):
        trees = []
        for seed in ('1', '2', '3'):
            job = os.path.join(wd, 'job.json')
            with open(job, 'w') as f:
                json.dump({'wd': wd, 'lines': lines, 'rule': 's' + seed, 'opts': opts}, f)
            env = dict(os.environ, PYTHONHASHSEED=seed)
            r = subprocess.run([sys.executable, '-B', '-c', SUB % verif, job], env=env, capture_output=True, text=True, timeout=120)
            acc.evals += 1
            if 'OK' not in r.stdout:
                if 'FAIL' in r.stdout:
                    acc.count('training_did_not_complete')
                    break
                raise RuntimeError('harness: subprocess training failed: ' + r.stdout[-300:] + r.stderr[-300:])
            trees.append(P.tree_bytes(os.path.join(wd, 'Rules', 's' + seed)))
        if len(trees) < 3:
            continue
        acc.nontrivial += 1
        if trees[0] != trees[1] or trees[0] != trees[2]:
            other = trees[1] if trees[0] != trees[1] else trees[2]
            diff = [k for k in set(trees[0]) | set(other) if trees[0].get(k) != other.get(k)]
            acc.fail({'lines': lines, 'opts': opts, 'subprocess': True},
                     'trainings in separate processes (PYTHONHASHSEED 1, 2, 3) differ in %r' % diff[:4], 'nondeterministic')
    tree.rmtree(wd)


def run_cli(tier, acc):
    """The trainer's own command line (trainer.main()): every spelling of the coverage option - 0, 0.0, 1, 1.0, values in between, none at all - and the
    other numeric options; the ruleset written must be the one the library call with those values writes (checked against the tally like any other)."""
    from .. import session as S
    td = tree.scratch_tree()
    lists = [c03.SCENARIOS[0], EXTRA[0]]
    argsets = [([], {}), (['--coverage', '0'], dict(coverage=0.0)), (['-c', '0.0'], dict(coverage=0.0)), (['--coverage', '1'], dict(coverage=1.0)),
               (['--coverage', '1.0'], dict(coverage=1.0)), (['--coverage', '0.5'], dict(coverage=0.5)), (['-c', '0.25', '--ngram', '3'], dict(coverage=0.25, ngram=3)),
               (['--coverage', '0.95', '--alphabet', '10'], dict(coverage=0.95, alphabet_size=10)), (['-n', '2', '-a', '20'], dict(ngram=2, alphabet_size=20)),
               (['--coverage', '0', '--ngram', '2'], dict(coverage=0.0, ngram=2))]
    for li, lines in enumerate(lists):
        tf = os.path.join(td, 'list%d.txt' % li)
        P.write_training(tf, lines, 'utf-8', '\n')
        for argv, opts in argsets:
            acc.evals += 1
            acc.nontrivial += 1
            import shutil
            shutil.rmtree(os.path.join(td, 'Rules', 'cli'), ignore_errors=True)
            r = S.run_cli(td, 'trainer', ['-t', tf, '-r', 'cli', '-e', 'utf-8'] + argv)
            case = {'layer': 'cli', 'list': li, 'argv': argv}
            base = os.path.join(td, 'Rules', 'cli')
            if not os.path.exists(os.path.join(base, 'Grammar', 'grammar.txt')):
                if r.exc and 'SystemExit' not in r.exc:
                    acc.fail(case, 'trainer.py %s raised %s' % (' '.join(argv), r.exc.strip().splitlines()[-1]), 'cli-raise')
                else:
                    acc.count('cli_training_did_not_complete')
                continue
            try:
                msgs, _ = check_ruleset(base, lines, opts)
            except Exception as e:
                msgs = ['ruleset cannot be compared with the tally: %r' % (e,)]
            for m in msgs[:3]:
                acc.fail(case, 'trainer.py %s on %r..: %s' % (' '.join(argv) or '(no options)', lines[:3], m), 'cli-' + m.split(':')[0].split('/')[0])
    tree.rmtree(td)


def run_shard(shard, tier, acc):
    if shard[0] == 'big':
        return run_big(shard, tier, acc)
    if shard[0] == 'cli':
        return run_cli(tier, acc)
    if shard[0] == 'subproc':
        run_subproc(tier, acc)
    else:
        run_t(shard, tier, acc)


def replay(case):
    if case.get('layer') == 'big':
        from ..runner import Acc
        acc = Acc()
        run_big(('big', case['distinct_items'], 1), 'quick', acc)
        return acc.failures[0]['msg'] if acc.failures else None
    if case.get('layer') == 'cli':
        from ..runner import Acc
        acc = Acc()
        run_cli('quick', acc)
        fs = [f for f in acc.failures if f['case'] == case]
        return fs[0]['msg'] if fs else None
    tree.use()
    wd = tree.mkdtemp('pcfgmc-c06r-')
    ok, base, out, pi = P.train(wd, case['lines'], rule='a', **case['opts'])
    if ok is not True:
        return None
    msgs, _ = check_ruleset(base, case['lines'], case['opts'])
    ok2, base2, _, _ = P.train(wd, case['lines'], rule='b', **case['opts'])
    if P.tree_bytes(base) != P.tree_bytes(base2):
        msgs.append('two trainings differ')
    tree.rmtree(wd)
    return msgs[0] if msgs else None
