"""C17 — PRINCE-LING emits the ruleset's words most-probable-first, up to the size asked; file = stdout."""
import itertools
import os
from collections import Counter

from .. import tree
from .. import rulesets as R
from .. import session as S
from . import queue_disk as D

ID = 'C17'
LEVEL = 'exploration'
RULE = ('bounded-exhaustive: prince_ling.main() is run in-process for every ruleset of a small family (groups of 1..4 equally probable words, alpha types with masks, ties between types) x both all_lower settings, '
        'unbounded and for EVERY N in 1..total+1, to stdout and to -o files; the unbounded list must be the PRINCE language of the reference reading (each (type,value,mask) once) in non-increasing probability order, '
        'output(N) its first min(N,total) lines, and the file content equal to the stdout content; non-trivial = N falling strictly inside a group of equally probable words')
ASSUMPTIONS = ['order is checked on the probabilities of the reference reading with float slack; ties may appear in any order',
               'words are identified with their pre-terminal through the create_guesses wrapper (the output is otherwise just lines)']


def specs(tier):
    t0, t1 = D.TERMINALS[0], D.TERMINALS[1]
    big = {
        'A': {1: [('a', .25), ('b', .25), ('c', .25), ('d', .25)], 3: [('abc', .5), ('xyz', .3), ('qqq', .2)]},
        'C': {1: [('L', .5), ('U', .5)], 3: [('LLL', .6), ('ULL', .2), ('UUU', .2)]},
        'D': {1: [('1', .4), ('2', .2), ('3', .2), ('4', .2)], 2: [('12', 1.0)]},
        'O': {1: [('!', .5), ('#', .5)]}, 'K': {4: [('1qaz', 1.0)]},
        'Y': [('2019', .5), ('1999', .5)], 'X': [('#1', 1.0)],
    }
    uni = dict(big)
    uni['A'] = {3: [('\u00e9t\u00e9', .5), ('\u043f\u0430\u0440', .5)]}
    uni['O'] = {1: [('\u20ac', .5), ('\U0001F600', .5)]}
    cands = [
        (t0, [('A1', .4), ('D1', .3), ('A2', .2), ('O1', .1)]),
        (t1, [('D1', .5), ('A2', .3), ('K4', .2)]),
        (big, [('A1', .5), ('D1', .5)]),
        (big, [('A3', .4), ('D1', .3), ('Y1', .2), ('X1', .1)]),
        (t0, [('D2', 1.0)]),
        (big, [('D1', .6), ('O1', .4)]),
        (uni, [('A3', .6), ('O1', .4)]),
    ]
    # word list and mask list with the SAME two probabilities: word i / mask j+1 and word i+1 / mask j tie in exact arithmetic while their float
    # products (base x word x mask, multiplied left to right) may differ in the last bit - the shared-child tie-break has to cope with both
    for pw in (.6, .7, .55, .9):
        for b in (.625, .3):
            near = dict(t0)
            near['A'] = {1: [('a', pw), ('b', 1 - pw)]}
            near['C'] = {1: [('L', pw), ('U', 1 - pw)]}
            cands.append((near, [('A1', b), ('D1', 1 - b)]))
    dom = dict(t0)
    dom['A'] = {6: [('monkey', .9), ('tigers', .1)]}
    dom['C'] = {6: [('LLLLLL', .55), ('ULLLLL', .45)]}
    cands.append((dom, [('A6', .7), ('D1', .3)]))
    # a letter whose upper case is two characters, with capitals after it
    sharp = dict(t0)
    sharp['A'] = {6: [('stra\u00dfe', .6), ('strase', .4)], 2: [('\u01f0a', 1.0)]}
    sharp['C'] = {6: [('LLLLLL', .5), ('UUUUUU', .3), ('LLLLLU', .2)], 2: [('LL', .5), ('UU', .3), ('LU', .2)]}
    cands.append((sharp, [('A6', .6), ('A2', .3), ('D1', .1)]))
    # terminals that begin or end with a blank (and one that is nothing but blanks)
    blanks = dict(t0)
    blanks['O'] = {1: [(' ', .6), ('!', .4)], 2: [(' !', .4), ('! ', .3), ('  ', .3)]}
    blanks['A'] = {1: [('a', 1.0)], 2: [('ab', 1.0)]}
    cands.append((blanks, [('O1', .4), ('O2', .3), ('A2', .2), ('D1', .1)]))
    # equally probable masks in one group where a later mask has L at a position at which an earlier one has U
    tied_masks = dict(t0)
    tied_masks['A'] = {2: [('ab', .6), ('cd', .4)], 3: [('abc', 1.0)]}
    tied_masks['C'] = {2: [('LL', .4), ('UL', .3), ('LU', .3)], 3: [('LLL', .25), ('ULL', .25), ('LUL', .25), ('LLU', .25)]}
    cands.append((tied_masks, [('A2', .5), ('A3', .3), ('D1', .2)]))
    # lengths of three digits next to lengths that are their first one / two digits (a junk line of 100 digits in the training list is enough)
    wide = dict(t0)
    wide['D'] = {1: [('7', 1.0)], 10: [('1234567890', .6), ('0987654321', .4)], 100: [('3074185296' * 10, 1.0)], 101: [('5' * 101, .5), ('6' * 101, .5)]}
    wide['A'] = {1: [('a', 1.0)], 10: [('abcdefghij', 1.0)], 105: [('k' * 105, 1.0)]}
    wide['C'] = {1: [('L', .5), ('U', .5)], 10: [('L' * 10, .6), ('U' + 'L' * 9, .4)], 105: [('L' * 105, 1.0)]}
    cands.append((wide, [('D10', .3), ('D100', .25), ('A105', .15), ('D1', .1), ('D101', .1), ('A10', .05), ('A1', .05)]))
    # keyboard walks typed with the shift key, next to their lower-case twins: --all_lower is about capitalisation masks, not about other terminals
    cands.append((D.TERMINALS[2], [('K4', .5), ('A1', .3), ('D1', .2)]))
    if tier == 'thorough':
        cands += [(big, [('A1', .3), ('A3', .3), ('D1', .2), ('D2', .1), ('K4', .1)]), (t1, [('A1', .5), ('A2', .25), ('D1', .125), ('O1', .125)])]
        # every ordered pair / every ascending triple of word classes of the tie-rich terminal set, with distinct and with tied class probabilities
        names = ['A1', 'A3', 'D1', 'D2', 'O1', 'K4', 'Y1', 'X1']
        for a, b in itertools.permutations(names, 2):
            cands.append((big, [(a, .6), (b, .4)]))
            cands.append((big, [(a, .5), (b, .5)]))
        for a, b, c in itertools.combinations(names, 3):
            cands.append((big, [(a, .4), (b, .4), (c, .2)]))
    out = []
    for term, pr in cands:
        spec = dict(term)
        spec.update(grammar=[('D1', 1.0)], prince=pr)
        out.append(spec)
    # more than ten probability groups in the word list AND in the mask list of one length: group indices of two digits in both transitions
    wide = dict(t0)
    ws = ['lion', 'wolf', 'bear', 'puma', 'lynx', 'deer', 'hare', 'mole', 'seal', 'orca', 'crab', 'moth']
    tot = float(sum(k * k for k in range(1, 13)))      # squares: no product of a word and a mask weight equals the product of two others by symmetry
    wide['A'] = {4: [(w, (12 - i) ** 2 / tot) for i, w in enumerate(ws)]}
    masks = ['LLLL', 'ULLL', 'UULL', 'UUUU', 'LULL', 'LLUL', 'LLLU', 'ULUL', 'LULU', 'UULU', 'ULLU']
    mtot = float(sum(range(1, 12)))
    wide['C'] = {4: [(m, (11 - i) / mtot) for i, m in enumerate(masks)]}
    spec = dict(wide)
    spec.update(grammar=[('D1', 1.0)], prince=[('A4', .8), ('D1', .2)], n_stride=9)
    out.append(spec)
    # e-mail providers and website hosts are word classes of their own in a PRINCE list (the trainer puts E and W into Prince/grammar.txt)
    ew = dict(t0)
    ew['E'] = [('gmail.com', .5), ('aol.com', .3), ('web.de', .2)]
    ew['W'] = [('site.com', .6), ('foo.org', .25), ('x.net', .15)]
    for pr in ([('A1', .4), ('E', .3), ('W', .2), ('D1', .1)], [('W', .5), ('E', .5)]):
        spec = dict(ew)
        spec.update(grammar=[('D1', 1.0)], prince=pr)
        out.append(spec)
    # a word of letters without case next to masks that differ only in case: the same string several times in the list, twice in a row
    cjk = dict(t0)
    cjk['A'] = {2: [('\u5bc6\u7801', .4), ('qq', .3), ('ok', .3)]}
    cjk['C'] = {2: [('LL', .8), ('UL', .1), ('UU', .1)]}
    spec = dict(cjk)
    spec.update(grammar=[('D1', 1.0)], prince=[('A2', .5), ('D1', .3), ('D2', .2)])
    out.append(spec)
    # rulesets in other encodings: the word file is written in the ruleset's encoding (utf-16 and utf-8-sig start with a byte-order mark - once)
    latin = dict(big)
    latin['A'] = {3: [('\u00e9t\u00e9', .5), ('\u00fcbe', .3), ('abc', .2)]}
    for term, enc in ((uni, 'utf-16'), (uni, 'utf-8-sig'), (latin, 'latin-1'), (uni, 'utf-32')):
        spec = dict(term)
        spec.update(grammar=[('D1', 1.0)], prince=[('A3', .6), ('O1', .3), ('D1', .1)], encoding=enc)
        out.append(spec)
    return out


def shards(tier):
    return [(i, sc) for i in range(len(specs(tier))) for sc in (0, 1)] + [('big', 0), ('processes', 0)]


def bounds(tier):
    return {'rulesets': len(specs(tier)), 'all_lower': [False, True], 'N': 'every N in 1..total+1, stdout and -o file'}


def run_big(acc):
    """A word list longer than any plausible output buffer: 5 000 equally probable words + a second group."""
    td = tree.scratch_tree()
    spec = dict(D.TERMINALS[0])
    spec['D'] = {4: [('%04d' % k, 1.0 / 5000) for k in range(5000)], 1: [('7', .6), ('8', .4)]}
    spec.update(grammar=[('D1', 1.0)], prince=[('D4', .6), ('D1', .4)])
    R.write_ruleset(os.path.join(td, 'Rules', 'v'), spec)
    U = S.run_cli(td, 'prince_ling', ['-r', 'v'])
    acc.evals += 1
    case0 = {'spec_index': 'big', 'all_lower': 0}
    want = ['%04d' % k for k in range(5000)] + ['7', '8']
    if U.exc or Counter(U.stdout) != Counter(want):
        acc.fail(case0, 'unbounded big list: %s, %d words, expected %d' % (U.exc, len(U.stdout), len(want)), 'language')
        tree.rmtree(td)
        return
    for N in (None, 1, 4095, 4096, 4097, 4200, 5000, 5001, 5003):
        outp = os.path.join(td, 'out.txt')
        argv = ['-r', 'v', '-o', outp] + ([] if N is None else ['-s', str(N)])
        r = S.run_cli(td, 'prince_ling', argv)
        acc.evals += 1
        acc.nontrivial += 1
        case = dict(case0, N=N, mode='file')
        if r.exc:
            acc.fail(case, '-o with size %r raised %s' % (N, r.exc.strip().splitlines()[-1]), 'raise')
            continue
        with open(outp, encoding='utf-8') as f:
            lines = f.read().split('\n')
        if lines and lines[-1] == '':
            lines.pop()
        exp = U.stdout if N is None else U.stdout[:min(N, len(U.stdout))]
        if lines != exp:
            k = next((i for i, (a, b) in enumerate(zip(lines, exp)) if a != b), min(len(lines), len(exp)))
            acc.fail(case, 'big list, --size %r: the -o file has %d lines, standard output gives %d; first difference at word #%d: file %r, stdout %r'
                     % (N, len(lines), len(exp), k + 1, lines[k] if k < len(lines) else None, exp[k] if k < len(exp) else None), 'file-differs')
    acc.sample({'prince_grammar': spec['prince'], 'words': len(want)}, cap=1)
    tree.rmtree(td)


def run_processes(acc):
    """Real prince_ling.py processes with different string-hash seeds on a ruleset with tied words, digits and masks: the list is the same list in
    every process - on standard output, in the -o file, and cut by --size inside a group of ties."""
    import subprocess
    import sys
    td = tree.scratch_tree()
    spec = dict(D.TERMINALS[0])
    spec.update(A={2: [('ab', .25), ('cd', .25), ('ef', .25), ('gh', .25)], 4: [('love', .4), ('fish', .2), ('blue', .2), ('sexy', .2)]},
                C={2: [('LL', .5), ('UL', .25), ('LU', .25)], 4: [('LLLL', .4), ('ULLL', .3), ('UUUU', .3)]},
                D={2: [('12', .4), ('11', .15), ('22', .15), ('21', .15), ('69', .15)]},
                grammar=[('D2', 1.0)], prince=[('A4', .4), ('D2', .35), ('A2', .25)])
    R.write_ruleset(os.path.join(td, 'Rules', 'v'), spec)

    def cli(seed, extra):
        env = {k: v for k, v in os.environ.items() if k != 'PYTHONUNBUFFERED'}
        env['PYTHONHASHSEED'] = seed
        r = subprocess.run([sys.executable, '-B', os.path.join(td, 'prince_ling.py'), '-r', 'v'] + extra, stdin=subprocess.DEVNULL, capture_output=True, env=env, timeout=300)
        return r.stdout.decode('utf-8', 'replace').split('\n')[:-1], r.returncode
    for flags in ([], ['--all_lower']):
        full, rc = cli('1', flags)
        acc.evals += 1
        if rc != 0 or not full:
            acc.fail({'layer': 'processes', 'flags': flags}, 'prince_ling.py %s ended with status %r and %d words' % (' '.join(flags), rc, len(full)), 'raise')
            continue
        for seed in ('2', '3'):
            other, _ = cli(seed, flags)
            acc.evals += 1
            acc.nontrivial += 1
            if other != full:
                k = next((i for i, (a, b) in enumerate(zip(other, full)) if a != b), min(len(other), len(full)))
                acc.fail({'layer': 'processes', 'flags': flags, 'seed': seed}, 'two prince_ling.py processes (PYTHONHASHSEED 1 and %s) print different lists: word #%d is %r in one and %r in the other'
                         % (seed, k + 1, full[k] if k < len(full) else None, other[k] if k < len(other) else None), 'processes-differ')
            outp = os.path.join(td, 'out_%s.txt' % seed)
            cli(seed, flags + ['-o', outp])
            acc.evals += 1
            try:
                with open(outp, encoding='utf-8') as f:
                    lines = f.read().split('\n')[:-1]
            except Exception as e:
                lines = ['<unreadable: %r>' % (e,)]
            if lines != full:
                acc.fail({'layer': 'processes', 'flags': flags, 'seed': seed, 'mode': 'file'}, 'the -o file of one process (PYTHONHASHSEED %s) is not the list another process prints (%d vs %d words)'
                         % (seed, len(lines), len(full)), 'processes-file')
            for N in (2, 3, 5, 7, len(full) - 1):
                got, _ = cli(seed, flags + ['-s', str(N)])
                acc.evals += 1
                if got != full[:N]:
                    acc.fail({'layer': 'processes', 'flags': flags, 'seed': seed, 'N': N}, '--size %d in one process (PYTHONHASHSEED %s) gives %r, the first %d words of the list another process prints are %r'
                             % (N, seed, got, N, full[:N]), 'processes-prefix')
    tree.rmtree(td)


def run_shard(shard, tier, acc):
    if shard[0] == 'processes':
        return run_processes(acc)
    if shard[0] == 'big':
        return run_big(acc)
    i, sc = shard
    spec = specs(tier)[i]
    td = tree.scratch_tree()
    R.write_ruleset(os.path.join(td, 'Rules', 'v'), spec)
    types, base = R.ref_loaded(spec, False, bool(sc), 'Prince')
    lang = Counter()
    probs = {}
    for bp, reps in base:
        for idx in itertools.product(*[range(len(types[r])) for r in reps]):
            pt = tuple(zip(reps, idx))
            probs[pt] = R.float_product(bp, [types[t][i_][0] for t, i_ in pt])
            lang.update(R.expand_pt(types, list(pt)))
    total = sum(lang.values())
    flags = ['--all_lower'] if sc else []
    case0 = {'spec_index': i, 'all_lower': sc, 'prince': spec['prince']}
    U = S.run_cli(td, 'prince_ling', ['-r', 'v'] + flags)
    acc.evals += 1
    if U.exc:
        acc.fail(case0, 'unbounded run raised %s' % U.exc.strip().splitlines()[-1], 'raise')
        tree.rmtree(td)
        return
    if Counter(U.stdout) != lang:
        missing = list((lang - Counter(U.stdout)).elements())[:4]
        extra = list((Counter(U.stdout) - lang).elements())[:4]
        acc.fail(case0, 'unbounded list differs from the PRINCE language: missing %r, unexpected/duplicated %r' % (missing, extra), 'language')
    last = None
    for e in U.events:
        p = probs.get(e[1])
        if p is None:
            acc.fail(case0, 'pre-terminal %r is not in the reference PRINCE grammar' % (e[1],), 'language')
            break
        if last is not None and p > last * (1 + 1e-12):
            acc.fail(case0, 'order: %r (prob %r) emitted after a group of probability %r' % (e[1], p, last), 'order')
            break
        last = p
    group_sizes = [e[2] for e in U.events]
    bounds_ = set(itertools.accumulate(group_sizes))
    stride = spec.get('n_stride', 1)      # a long list is cut at every stride-th N, at the group boundaries around them and at the end
    for N in range(1, total + 2):
        if stride > 1 and N % stride and N < total - 1:
            continue
        for mode in ('stdout', 'file'):
            acc.evals += 1
            case = dict(case0, N=N, mode=mode)
            argv = ['-r', 'v', '-s', str(N)] + flags
            outp = os.path.join(td, 'out.txt')
            if mode == 'file':
                argv += ['-o', outp]
            r = S.run_cli(td, 'prince_ling', argv)
            if r.exc:
                acc.fail(case, '-s %d raised %s' % (N, r.exc.strip().splitlines()[-1]), 'raise')
                continue
            if mode == 'file':
                try:
                    with open(outp, encoding=spec.get('encoding', 'utf-8'), newline='') as f:
                        lines = f.read().split('\n')
                except UnicodeError as e:
                    acc.fail(case, 'the file written with -o is not text in the encoding of the ruleset (%s): %r' % (spec.get('encoding', 'utf-8'), e), 'file-encoding')
                    continue
                if lines and lines[-1] == '':
                    lines.pop()
                if r.stdout:
                    acc.fail(case, 'with -o the words also appear on stdout (%d lines)' % len(r.stdout), 'file-stdout')
            else:
                lines = r.stdout
            if N not in bounds_ and N < total:
                acc.nontrivial += 1
            want = U.stdout[:min(N, total)]
            if len(lines) != len(want):
                acc.fail(case, '--size %d (%s) wrote %d words, expected %d (total %d, group sizes %r)' % (N, mode, len(lines), len(want), total, group_sizes), 'size')
            elif lines != want:
                acc.fail(case, '--size %d (%s) is not the first %d words of the unbounded list' % (N, mode, len(want)), 'prefix')
    acc.sample({'prince_grammar': spec['prince'], 'all_lower': bool(sc), 'total': total, 'first_words': U.stdout[:6]}, cap=1)
    tree.rmtree(td)


def replay(case):
    if isinstance(case, dict) and case.get('layer') == 'processes':
        from ..runner import Acc
        acc = Acc()
        run_processes(acc)
        fs = [f for f in acc.failures if f['case'] == case]
        return fs[0]['msg'] if fs else None
    from ..runner import Acc
    acc = Acc()
    if case['spec_index'] == 'big':
        run_big(acc)
    else:
        run_shard((case['spec_index'], case['all_lower']), 'thorough', acc)
    for f in acc.failures:
        if f['case'].get('N') == case.get('N') and f['case'].get('mode') == case.get('mode'):
            return f['msg']
    return None
