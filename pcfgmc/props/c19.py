"""C19 — equivalent encodings of a training list train the same grammar."""
import itertools
import os

from .. import tree
from .. import pipeline as P
from . import c11

ID = 'C19'
LEVEL = 'exploration'
RULE = ('bounded-exhaustive: base lists of <= 3 lines over a 15-password pool (leading/trailing/inner spaces, non-ASCII, $HEX[ look-alikes, digit-then-space prefixes, multiplicities 1..3); for each base list EVERY assignment of '
        '{plain, $HEX} to its lines x {LF, CRLF} x {repeated lines, run-length collapsed with --prefixcount} x {utf-8, latin-1, cp1251} is read by the real TrainerFileInput and must yield the base sequence; '
        'rulesets trained from the variants of one base list must be byte-identical (modulo uuid/file name) to the plain one; junk lines (blank, tab, every C0 control, U+0085, U+2028, U+2029 - each in the middle, first, last, doubled at the end of a line and as the whole line -, undecodable bytes, broken $HEX) '
        'inserted at every position must be skipped without changing the yielded sequence or the ruleset; three successive readers must yield the same sequence; non-trivial = variant that differs from the plain LF file')
ASSUMPTIONS = ['a password of the form $HEX[...] cannot be written plainly in the trainer input language; such base passwords are only written in $HEX form',
               'in a utf-16 / utf-32 list a password that begins with U+FEFF is only written plainly: the hex digits of its first character are also those of a byte-order mark in front of the rest',
               'rulesets are compared within one encoding (the files are written in the training encoding)']
NSHARDS = 16
POOL = ['password', 'Pass word', ' lead', 'trail ', '  two  ', 'пароль', 'café', '$HEX[41', 'x$HEX[41]', '$HEX[zz]', '12 abc', '7', 'a]', '$HEX[4142]', ' $HEX[41]', '$HEX[41]x', '$HEX[4142] ',
        '   ',      # a password that is nothing but blanks is a password (only the empty line is not)
        '\ufeffpw',
        'e\u0301\u212b',
        '\u4f60\u597d1', '\u00e9a']      # first byte E4 in utf-8 / E9 in latin-1: hex digits that are also letters of the $HEX[ prefix      # a decomposed letter and a compatibility character (ANGSTROM SIGN): text is taken as it is written, not normalised      # U+FEFF as the first character of a password: a byte-order mark only at the very start of a utf-16 / utf-32 file, a character everywhere else
JUNK = [('blank', b''), ('tab', b'ab\tcd'), ('nel', 'ab\u0085cd'), ('ls', 'ab\u2028cd'), ('ps', 'ab\u2029cd'),
        ('undecodable', {'utf-8': b'ab\xff\xfecd', 'cp1251': b'ab\x98cd'}), ('broken_hex', b'$HEX[4g]'), ('odd_hex', b'$HEX[414]'),
        # well-formed hex whose bytes are not text in the file's encoding: cut inside a multi-byte character, a lone continuation byte, an invalid byte
        ('hex_cut_multibyte', {'utf-8': b'$HEX[636166c3]'}), ('hex_lone_continuation', {'utf-8': b'$HEX[a9616263]'}),
        # well-formed hex that decodes to something no plain line may carry either (empty password, tab, control character, line break characters):
        # skipped like its plain twin, and not an encoding error
        ('hexed_empty', b'$HEX[]'), ('hexed_tab', b'$HEX[61620963]'), ('hexed_bell', b'$HEX[61076263]'), ('hexed_lf', b'$HEX[6162630a]'),
        ('hexed_crlf', b'$HEX[6162630d0a]'), ('hexed_ls', {'utf-8': b'$HEX[6162e280a863]'}), ('hexed_nel', {'utf-8': b'$HEX[6162c285]'}),
        ('hex_invalid_byte', {'utf-8': b'$HEX[ff]', 'cp1251': b'$HEX[6198]'}), ('hex_cut_4byte', {'utf-8': b'$HEX[6162f09f98]'})] + \
       [('c0_%02x' % c, b'ab' + bytes([c]) + b'cd') for c in range(0, 0x20) if c not in (0x0a, 0x0d, 0x09)]
# the same characters as the first / the last character of the line and as the whole line: a validity test phrased as "does this text
# split into more than one line" (or a reader that drops a trailing separator) treats these differently from an inner occurrence
_SINGLE = [('tab', '\t'), ('nel', '\u0085'), ('ls', '\u2028'), ('ps', '\u2029')] + [('c0_%02x' % c, chr(c)) for c in range(0, 0x20) if c not in (0x0a, 0x0d, 0x09)]
JUNK += [('%s_first' % n, ch + 'abcd') for n, ch in _SINGLE] + [('%s_last' % n, 'abcd' + ch) for n, ch in _SINGLE] + [('%s_alone' % n, ch) for n, ch in _SINGLE] + \
        [('%s_twice' % n, 'ab' + ch + ch) for n, ch in _SINGLE[:4]]
# two, three and four line-break characters of the codecs reader in ONE line, with text that would be a valid password behind the last one: the whole
# physical line is junk, however many pieces the reader's readline() cuts it into
_BREAKS = [('vt', '\x0b'), ('ff', '\x0c'), ('fs', '\x1c'), ('gs', '\x1d'), ('rs', '\x1e'), ('nel', '\u0085'), ('ls', '\u2028'), ('ps', '\u2029')]
JUNK += [('%s_two_pieces_behind' % n, 'rec' + ch + 'sepa' + ch + 'values99') for n, ch in _BREAKS] + \
        [('%s_three_pieces_behind' % n, 'rec' + ch + 'sepa' + ch + 'rated' + ch + 'values99') for n, ch in _BREAKS[::2]] + \
        [('%s_four_pieces_behind' % n, 'a' + ch + 'b' + ch + 'c' + ch + 'd' + ch + 'values99') for n, ch in _BREAKS[1::2]] + \
        [('mixed_breaks_behind', 'rec\x1esepa\u2028values99'), ('mixed_breaks_tab_behind', 'rec\x1ese\tpa\x0cvalues99')]
# a lone CR inside a line is deliberately not in the junk alphabet: treating it as an (old Mac) line end is legitimate


# what the hexed_* payloads stand for, and payloads that are not text in utf-16 (odd number of bytes, a lone surrogate, a low surrogate first)
HEXED_TEXT = {'hexed_empty': '', 'hexed_tab': 'ab\tc', 'hexed_bell': 'a\x07bc', 'hexed_lf': 'abc\n', 'hexed_crlf': 'abc\r\n', 'hexed_ls': 'ab\u2028c', 'hexed_nel': 'ab\x85'}
HEX_BAD16 = {'hex_cut_multibyte': '$HEX[610062]', 'hex_lone_continuation': '$HEX[610000d86200]', 'hex_invalid_byte': '$HEX[00dc00d8]', 'hex_cut_4byte': '$HEX[61003dd8]'}


def encodable(s, enc):
    try:
        s.encode(enc)
        return True
    except UnicodeEncodeError:
        return False


def must_hex(pw):
    return pw.startswith('$HEX[') and pw.endswith(']')


PIECE = {'utf-16': 'utf-16-le', 'utf-32': 'utf-32-le'}        # encodings whose files start with ONE byte-order mark: lines are encoded without it
BOM = {'utf-16': b'\xff\xfe', 'utf-32': b'\xff\xfe\x00\x00'}


def hexform(pw, enc):
    return '$HEX[' + pw.encode(PIECE.get(enc, enc)).hex() + ']'


def base_lists(tier):
    maxk = 3 if tier == 'thorough' else 2
    out = []
    for k in range(1, maxk + 1):
        for combo in itertools.product(POOL, repeat=k):
            if tier == 'quick' and k == 2 and (POOL.index(combo[0]) + POOL.index(combo[1])) % 2:
                continue
            if tier == 'thorough' and k == 3 and (POOL.index(combo[0]) + POOL.index(combo[1]) * 3 + POOL.index(combo[2])) % 7:
                continue
            for mult in ([1] * k, [2] + [1] * (k - 1), [1] * (k - 1) + [3]):
                seq = []
                for pw, m in zip(combo, mult):
                    seq.extend([pw] * m)
                out.append(seq)
    # de-duplicate
    seen = set()
    res = []
    for s in out:
        t = tuple(s)
        if t not in seen:
            seen.add(t)
            res.append(s)
    return res


def runs(seq):
    out = []
    for pw in seq:
        if out and out[-1][0] == pw:
            out[-1][1] += 1
        else:
            out.append([pw, 1])
    return out


def variants(seq, enc):
    """yield (name, file bytes, prefixcount flag)"""
    distinct = runs(seq)
    n = len(distinct)
    piece = PIECE.get(enc, enc)
    for nl_name, nl in (('LF', b'\n'), ('CRLF', b'\r\n')):
        for prefix in (False, True):
            for mask in itertools.product([False, True], repeat=n):
                lines = []
                ok = True
                for (pw, cnt), hx in zip(distinct, mask):
                    if not hx and must_hex(pw):
                        ok = False
                        break
                    if hx and enc in PIECE and pw.startswith('\ufeff'):
                        # in utf-16 / utf-32 the hex digits 'fffe...' are a byte-order mark in front of the password just as well as a password
                        # that begins with U+FEFF: such a password has no unambiguous $HEX form there and is only written plainly
                        ok = False
                        break
                    body = hexform(pw, enc) if hx else pw
                    if prefix:
                        lines.append(('%d %s' % (cnt, body)).encode(piece))
                    else:
                        lines.extend([body.encode(piece)] * cnt)
                if not ok:
                    continue
                nlb = nl.decode('ascii').encode(piece)
                yield ('%s %s hex=%s' % (nl_name, 'prefixcount' if prefix else 'repeated', ''.join('H' if h else 'p' for h in mask)),
                       BOM.get(enc, b'') + nlb.join(lines) + nlb, prefix)
                if all(mask) and nl_name == 'LF':
                    # the same file with the hex digits in capitals (both spellings are hex)
                    up = []
                    for ln in lines:
                        t = ln.decode(piece)
                        k = t.find('$HEX[')
                        up.append((t[:k + 5] + t[k + 5:-1].upper() + ']').encode(piece))
                    yield ('%s %s hex=%s capitals' % (nl_name, 'prefixcount' if prefix else 'repeated', 'H' * n), BOM.get(enc, b'') + nlb.join(up) + nlb, prefix)


def read_all(TFI, path, enc, prefix):
    r = TFI(path, enc, prefix)
    seq = list(r.read_password())
    return seq, r.num_passwords, r.num_encoding_errors


def shards(tier):
    return [('seq', i, NSHARDS) for i in range(NSHARDS)] + [('rules', i, NSHARDS) for i in range(NSHARDS)] + [('junk', 0, 1), ('cli', 0, 1), ('long', 0, 1), ('encjunk', 0, 1), ('autodetect', 0, 1)]


def bounds(tier):
    return {'pool': POOL, 'base_list_lines': '<= %d distinct runs, multiplicities 1..3' % (3 if tier == 'thorough' else 2),
            'encodings': ['utf-8', 'latin-1', 'cp1251', 'utf-16'], 'undecodable_bytes_in': sorted(set(e for e, _ in ENC_JUNK)), 'junk_kinds': [j[0] for j in JUNK]}


def run_long(tier, acc):
    """Files longer than the reader's duplicate-detection window (100 000 passwords): the yielded sequence must not change at or after the
    window, whichever encoding of the list is used (plain, $HEX, counted, a duplicate only beyond the window, junk beyond the window)."""
    tree.use()
    TFI = tree.imp('lib_trainer.trainer_file_input').TrainerFileInput
    wd = tree.mkdtemp('pcfgmc-c19l-')
    path = os.path.join(wd, 'long.txt')
    n = 100012
    base = ['p%06dx' % i for i in range(n - 4)] + ['late', 'late', ' tail ', 'p000001x']
    forms = {
        'plain LF': ('\n'.join(base) + '\n').encode(), 'plain CRLF': ('\r\n'.join(base) + '\r\n').encode(),
        'last lines as $HEX': ('\n'.join(base[:-4] + [hexform(p_, 'utf-8') for p_ in base[-4:]]) + '\n').encode(),
        'junk after the window': ('\n'.join(base[:-2] + ['ab\tcd', ''] + base[-2:]) + '\n').encode(),
    }
    counted = []
    for w, k in c11.rle(base):
        counted.append('%d %s' % (k, w))
    forms['counted'] = ('\n'.join(counted) + '\n').encode()
    for name, data in forms.items():
        with open(path, 'wb') as f:
            f.write(data)
        acc.evals += 1
        acc.nontrivial += 1
        case = {'layer': 'long', 'form': name}
        try:
            got, npw, nerr = read_all(TFI, path, 'utf-8', name == 'counted')
        except Exception as e:
            acc.fail(case, 'reader raised %r on a %d-line file (%s)' % (e, n, name), 'long-raise')
            continue
        if got != base or npw != len(base):
            k = next((i for i, (a, b) in enumerate(zip(got, base)) if a != b), min(len(got), len(base)))
            acc.fail(case, '%d-line file (%s): %d passwords yielded (num_passwords %d), expected %d; first difference at line %d: %r vs %r'
                     % (n, name, len(got), npw, len(base), k + 1, got[k:k + 1], base[k:k + 1]), 'long-sequence')
    tree.rmtree(wd)


def run_seq(shard, tier, acc):
    _, si, ns = shard
    tree.use()
    TFI = tree.imp('lib_trainer.trainer_file_input').TrainerFileInput
    wd = tree.mkdtemp('pcfgmc-c19-')
    path = os.path.join(wd, 't.txt')
    for idx, seq in enumerate(base_lists(tier)):
        if idx % ns != si:
            continue
        for enc in ('utf-8', 'latin-1', 'cp1251', 'utf-16'):
            if not all(encodable(p, enc) for p in seq):
                continue
            for name, data, prefix in variants(seq, enc):
                acc.evals += 1
                if name != 'LF repeated hex=' + 'p' * len(runs(seq)):
                    acc.nontrivial += 1
                with open(path, 'wb') as f:
                    f.write(data)
                case = {'layer': 'sequence', 'base': seq, 'encoding': enc, 'variant': name, 'file_hex': data.hex()}
                try:
                    got, npw, nerr = read_all(TFI, path, enc, prefix)
                    got2, npw2, nerr2 = read_all(TFI, path, enc, prefix)
                    got3, npw3, nerr3 = read_all(TFI, path, enc, prefix)
                except Exception as e:
                    acc.fail(case, 'reading variant %s of %r (%s) raised %r' % (name, seq, enc, e), 'raise')
                    continue
                if got != seq:
                    acc.fail(case, 'variant [%s, %s] of base list %r is read as %r' % (name, enc, seq, got), 'sequence')
                elif npw != len(seq) or nerr != 0:
                    acc.fail(case, 'variant [%s, %s] of %r: num_passwords=%d num_encoding_errors=%d, expected %d and 0' % (name, enc, seq, npw, nerr, len(seq)), 'counters')
                if (got2, npw2, nerr2) != (got, npw, nerr) or (got3, npw3, nerr3) != (got, npw, nerr):
                    acc.fail(case, 'three successive readers of the same file disagree', 'passes')
        if idx % 37 == si:
            acc.sample({'layer': 'sequence', 'base': seq, 'variants': [v[0] for v in variants(seq, 'utf-8')][:6]}, cap=1)
    tree.rmtree(wd)


def train_bytes(wd, data, enc, prefix, rule, **opts):
    ok, base, out, pi = P.train(wd, None, rule=rule, raw_bytes=data, encoding=enc, prefixcount=prefix, coverage=0.6, ngram=2, **opts)
    if ok is not True:
        return None, out
    t = P.tree_bytes(base)
    # the config records the number of encoding errors; that is allowed to differ between variants with junk
    cfg = t.get('config.ini', b'')
    t['config.ini'] = b'\n'.join(l for l in cfg.split(b'\n') if not l.startswith(b'number_of_encoding_errors'))
    return t, out


def run_rules(shard, tier, acc):
    _, si, ns = shard
    tree.use()
    wd = tree.mkdtemp('pcfgmc-c19r-')
    lists = [s for s in base_lists(tier) if len(runs(s)) >= 1][::3 if tier == 'quick' else 2]
    for idx, seq in enumerate(lists):
        if idx % ns != si:
            continue
        for enc in ('utf-8', 'cp1251', 'latin-1', 'utf-16'):
            if not all(encodable(p, enc) for p in seq):
                continue
            if enc != 'utf-8' and not any(ord(c) > 127 for p in seq for c in p):
                continue
            vs = list(variants(seq, enc))
            if not vs:
                continue
            # reference: first admissible variant; then all-hex, CRLF, prefixcount and one mixed variant
            picks = [vs[0]] + [v for v in vs if v[0].endswith('hex=' + 'H' * len(runs(seq)))][:4]
            picks += [v for v in vs if 'CRLF repeated' in v[0]][:1] + [v for v in vs if 'LF prefixcount' in v[0]][:2]
            # the other input of the trainer (--multiword FILE, plain words that pre-train the multi-word detector) is the same in every variant
            for topts in ({}, {'multiword_words': ['pass', 'word', 'lead']}):
              ref = None
              seenv = set()
              for name, data, prefix in picks:
                if name in seenv:
                    continue
                seenv.add(name)
                if topts:
                    name = name + ' --multiword'
                acc.evals += 1
                t, out = train_bytes(wd, data, enc, prefix, 'r', **topts)
                if t is None:
                    if ref is None:
                        break       # list cannot be trained at all (e.g. too short for OMEN): outside
                    acc.fail({'layer': 'ruleset', 'base': seq, 'encoding': enc, 'variant': name, 'file_hex': data.hex()},
                             'variant [%s, %s] of %r cannot be trained although the plain list can' % (name, enc, seq), 'ruleset-train')
                    continue
                if ref is None:
                    ref = (name, t)
                    continue
                acc.nontrivial += 1
                if t != ref[1]:
                    diff = sorted(k for k in set(t) | set(ref[1]) if t.get(k) != ref[1].get(k))
                    acc.fail({'layer': 'ruleset', 'base': seq, 'encoding': enc, 'variant': name, 'file_hex': data.hex()},
                             'ruleset trained from variant [%s, %s] of %r differs from [%s] in %r' % (name, enc, seq, ref[0], diff[:5]), 'ruleset')
    tree.rmtree(wd)


def run_junk(tier, acc):
    tree.use()
    TFI = tree.imp('lib_trainer.trainer_file_input').TrainerFileInput
    wd = tree.mkdtemp('pcfgmc-c19j-')
    path = os.path.join(wd, 't.txt')
    bases = [['password', 'password', 'letmein'], ['пароль', 'Pass word', ' lead']]
    for seq in bases:
        for enc in ('utf-8', 'cp1251', 'utf-16'):
            if not all(encodable(p, enc) for p in seq):
                continue
            piece = PIECE.get(enc, enc)
            clean = BOM.get(enc, b'') + b''.join(p.encode(piece) + '\n'.encode(piece) for p in seq)
            ref_t, _ = train_bytes(wd, clean, enc, False, 'clean')
            for jname, junk in JUNK:
                if piece != enc and jname in HEXED_TEXT:
                    # a $HEX payload is bytes in the file's encoding: the same text, hexed in this encoding
                    jb = ('$HEX[' + HEXED_TEXT[jname].encode(piece).hex() + ']').encode(piece)
                elif piece != enc and jname in HEX_BAD16:
                    jb = HEX_BAD16[jname].encode(piece)
                elif piece != enc and jname.startswith('hex'):
                    continue
                elif isinstance(junk, dict):
                    if enc not in junk:
                        continue
                    jb = junk[enc]
                elif isinstance(junk, str):
                    if not encodable(junk, enc):
                        continue
                    jb = junk.encode(piece)
                else:
                    jb = junk if piece == enc else junk.decode('ascii').encode(piece)
                for pos in range(len(seq) + 1):
                    for nl, hexmode in ((b'\n', 'plain'), (b'\r\n', 'plain'), (b'\n', 'first-hex'), (b'\n', 'all-hex')):
                        # the valid lines themselves in plain or $HEX form: state left behind by a decoded $HEX line must not change how junk is treated
                        lines = []
                        for li, p_ in enumerate(seq):
                            if hexmode == 'all-hex' or (hexmode == 'first-hex' and li == 0):
                                lines.append(hexform(p_, enc).encode(piece))
                            else:
                                lines.append(p_.encode(piece))
                        lines.insert(pos, jb)
                        if hexmode == 'plain' and nl == b'\n':
                            # the same junk line on two adjacent lines (sorted lists with duplicates)
                            lines.insert(pos, jb)
                        nlb = nl.decode('ascii').encode(piece)
                        data = BOM.get(enc, b'') + nlb.join(lines) + nlb
                        acc.evals += 1
                        acc.nontrivial += 1
                        case = {'layer': 'junk', 'base': seq, 'encoding': enc, 'junk': jname, 'position': pos, 'valid_lines': hexmode, 'file_hex': data.hex()}
                        with open(path, 'wb') as f:
                            f.write(data)
                        try:
                            got, npw, nerr = read_all(TFI, path, enc, False)
                        except Exception as e:
                            acc.fail(case, 'junk line %s at line %d (%s) makes the reader raise %r' % (jname, pos, enc, e), 'junk-raise:' + jname.split('_')[0])
                            continue
                        reps = 2 if (hexmode == 'plain' and nl == b'\n') else 1
                        want_err = reps if (jname in ('undecodable', 'broken_hex', 'odd_hex') or jname.startswith('hex_')) else 0
                        if got == seq and (npw != len(seq) or nerr != want_err):
                            acc.fail(case, 'junk line %s at line %d (%s, valid lines %s): num_passwords=%d num_encoding_errors=%d, expected %d and %d'
                                     % (jname, pos, enc, hexmode, npw, nerr, len(seq), want_err), 'junk-counters:' + jname.split('_')[0])
                            continue
                        if got != seq:
                            extra = [g for g in got if g not in seq]
                            acc.fail(case, 'junk line %s (%r) at line %d (%s): reader yields %r instead of %r' % (jname, jb, pos, enc, got, seq),
                                     ('junk-leak:' if extra else 'junk-loss:') + jname.split('_')[0])
                            continue
                        if pos == 1 and nl == b'\n' and hexmode in ('plain', 'first-hex'):
                            t, out = train_bytes(wd, data, enc, False, 'junk')
                            acc.evals += 1
                            if t is None:
                                acc.fail(case, 'junk line %s aborts training' % jname, 'junk-train:' + jname.split('_')[0])
                            elif t != ref_t:
                                diff = sorted(k for k in set(t) | set(ref_t) if t.get(k) != ref_t.get(k))
                                acc.fail(case, 'junk line %s changes the trained ruleset in %r' % (jname, diff[:4]), 'junk-ruleset:' + jname.split('_')[0])
    # counted lists (--prefixcount, the output of `sort | uniq -c`): lines that carry no password - a count alone (what a run of blank lines
    # collapses to), a count and blanks, text without a count - are skipped like the blank lines they stand for
    COUNTED_JUNK = [('count_only', '12'), ('count_only_padded', '     12'), ('count_only_one_digit', '7'), ('count_and_blank', '3 '), ('count_only_big', '123456'),
                    ('no_count', 'password'), ('no_count_two_words', 'pass word'), ('blank', ''), ('blanks', '      ')]
    for seq in bases:
        if not all(encodable(p, 'utf-8') for p in seq):
            continue
        counted = ['%7d %s' % (1, p_) for p_ in seq]
        for jname, jl in COUNTED_JUNK:
            for pos in range(len(seq) + 1):
                lines = list(counted)
                lines.insert(pos, jl)
                data = ('\n'.join(lines) + '\n').encode('utf-8')
                acc.evals += 1
                acc.nontrivial += 1
                case = {'layer': 'junk', 'base': seq, 'encoding': 'utf-8', 'junk': 'counted_' + jname, 'position': pos, 'variant': 'prefixcount', 'file_hex': data.hex()}
                with open(path, 'wb') as f:
                    f.write(data)
                try:
                    got, npw, nerr = read_all(TFI, path, 'utf-8', True)
                except Exception as e:
                    acc.fail(case, 'counted list: line %r at line %d makes the reader raise %r' % (jl, pos, e), 'junk-raise:counted')
                    continue
                if got != seq or npw != len(seq):
                    extra = [g for g in got if g not in seq]
                    acc.fail(case, 'counted list: line %r (%s) at line %d: reader yields %r (num_passwords %d) instead of %r' % (jl, jname, pos, got[:6], npw, seq),
                             ('junk-leak:' if extra or len(got) > len(seq) else 'junk-loss:') + 'counted')
    # a junk line that uniq -c collapsed: '<n> <junk>' must be skipped and counted exactly like the n plain junk lines it stands for
    # (the number of encoding errors ends up in config.ini, which is part of the ruleset)
    for seq in bases:
        for enc in ('utf-8', 'cp1251'):
            if not all(encodable(p, enc) for p in seq):
                continue
            for jname, junk in JUNK:
                if not (jname in ('undecodable', 'broken_hex', 'odd_hex', 'tab', 'blank') or jname.startswith('hex')):
                    continue
                jb = junk.get(enc) if isinstance(junk, dict) else (junk.encode(enc) if isinstance(junk, str) else junk)
                if jb is None:
                    continue
                for n in (1, 3):
                    for pos in (0, 1, len(seq)):
                        plain = [p_.encode(enc) for p_ in seq]
                        plain[pos:pos] = [jb] * n
                        counted = [b'%7d ' % 1 + p_.encode(enc) for p_ in seq]
                        counted.insert(pos, b'%7d ' % n + jb)
                        res = []
                        acc.evals += 1
                        acc.nontrivial += 1
                        data_c = b'\n'.join(counted) + b'\n'
                        case = {'layer': 'junk', 'base': seq, 'encoding': enc, 'junk': 'counted_%s_x%d' % (jname, n), 'position': pos, 'variant': 'prefixcount twin',
                                'file_hex': data_c.hex(), 'plain_file_hex': (b'\n'.join(plain) + b'\n').hex()}
                        try:
                            for data, pre in ((b'\n'.join(plain) + b'\n', False), (data_c, True)):
                                with open(path, 'wb') as f:
                                    f.write(data)
                                res.append(read_all(TFI, path, enc, pre))
                        except Exception as e:
                            acc.fail(case, 'counted junk line %s x%d at line %d (%s) makes the reader raise %r' % (jname, n, pos, enc, e), 'junk-raise:counted')
                            continue
                        if res[0] != res[1]:
                            acc.fail(case, 'junk line %s written %d times gives (passwords, num_passwords, num_encoding_errors) = %r, its count-prefixed form gives %r'
                                     % (jname, n, res[0], res[1]), 'junk-counters:counted-twin')
    acc.sample({'layer': 'junk', 'kinds': [j[0] for j in JUNK][:12]}, cap=1)
    tree.rmtree(wd)


def run_cli_layer(tier, acc):
    """The trainer command line itself: trainer.main() with -t/-r/-e/--prefixcount/--coverage on plain, $HEX and count-prefixed files;
    the rulesets must be byte-identical to each other and to the library-level training with the same options."""
    from .. import session as S
    td = tree.scratch_tree()
    bases = [['password1', 'password1', 'letmein!', ' lead99'], ['\u043f\u0430\u0440\u043e\u043b\u044c', 'Pass word', 'Pass word', 'Pass word', '$HEX[41]x']]
    for bi, seq in enumerate(bases):
        enc = 'utf-8'
        vs = list(variants(seq, enc))
        picks = [vs[0]] + [v for v in vs if v[0].startswith('LF repeated hex=' + 'H')][:1] + [v for v in vs if v[0].startswith('LF prefixcount hex=' + 'p')][:1] \
            + [v for v in vs if v[0].startswith('CRLF prefixcount hex=' + 'H')][:1]
        ref = None
        for name, data, prefix in picks:
            tf = os.path.join(td, 'train.txt')
            with open(tf, 'wb') as f:
                f.write(data)
            argv = ['-t', tf, '-r', 'cli', '-e', enc, '--coverage', '0.5', '--ngram', '3'] + (['--prefixcount'] if prefix else [])
            import shutil
            shutil.rmtree(os.path.join(td, 'Rules', 'cli'), ignore_errors=True)
            r = S.run_cli(td, 'trainer', argv)
            acc.evals += 1
            acc.nontrivial += 1
            case = {'layer': 'cli', 'base': seq, 'encoding': enc, 'variant': name, 'file_hex': data.hex()}
            base_dir = os.path.join(td, 'Rules', 'cli')
            if r.exc or not os.path.exists(os.path.join(base_dir, 'Grammar', 'grammar.txt')):
                acc.fail(case, 'trainer.py %s did not produce a ruleset (%s)' % (' '.join(argv[2:]), (r.exc or '').strip().splitlines()[-1:] or r.stdout[-3:]), 'cli-train')
                continue
            t = P.tree_bytes(base_dir)
            t['config.ini'] = b'\n'.join(l for l in t['config.ini'].split(b'\n') if not l.startswith(b'number_of_encoding_errors'))
            if ref is None:
                ref = (name, t)
                # the library-level training with the same options
                lt, _ = train_bytes_opts(td, data, enc, prefix, 'lib', coverage=0.5, ngram=3)
                if lt is not None and lt != t:
                    diff = sorted(k for k in set(t) | set(lt) if t.get(k) != lt.get(k))
                    acc.fail(case, 'trainer.py on the command line and run_trainer() with the same options differ in %r' % diff[:5], 'cli-vs-library')
                continue
            if t != ref[1]:
                diff = sorted(k for k in set(t) | set(ref[1]) if t.get(k) != ref[1].get(k))
                acc.fail(case, 'trainer.py: variant [%s] of %r trains a ruleset that differs from [%s] in %r' % (name, seq, ref[0], diff[:5]), 'cli-ruleset')
    # an encoding given on the command line is the encoding used, also when it is 'ascii' and the list holds bytes that are valid UTF-8: those lines
    # are undecodable, skipped and counted (same ruleset as the library gives with that encoding)
    import shutil
    for name, data, prefix in [v for v in variants(['caf\u00e9', 'password1', 'password1', 'letmein!'], 'utf-8') if v[0].startswith('LF')][:4]:
        tf = os.path.join(td, 'train.txt')
        with open(tf, 'wb') as f:
            f.write(data)
        argv = ['-t', tf, '-r', 'cli', '-e', 'ascii', '--coverage', '0.5', '--ngram', '3'] + (['--prefixcount'] if prefix else [])
        shutil.rmtree(os.path.join(td, 'Rules', 'cli'), ignore_errors=True)
        r = S.run_cli(td, 'trainer', argv)
        acc.evals += 1
        acc.nontrivial += 1
        case = {'layer': 'cli', 'base': ['caf\u00e9', 'password1', 'password1', 'letmein!'], 'encoding': 'ascii', 'variant': name, 'file_hex': data.hex()}
        base_dir = os.path.join(td, 'Rules', 'cli')
        if r.exc or not os.path.exists(os.path.join(base_dir, 'Grammar', 'grammar.txt')):
            acc.fail(case, 'trainer.py -e ascii did not produce a ruleset (%s)' % ((r.exc or '').strip().splitlines()[-1:] or r.stdout[-3:]), 'cli-train')
            continue
        t = P.tree_bytes(base_dir)
        lt, _ = train_bytes_opts(td, data, 'ascii', prefix, 'lib', coverage=0.5, ngram=3)
        t['config.ini'] = b'\n'.join(l for l in t['config.ini'].split(b'\n') if not l.startswith(b'number_of_encoding_errors'))
        if lt is not None and lt != t:
            diff = sorted(k for k in set(t) | set(lt) if t.get(k) != lt.get(k))
            acc.fail(case, 'trainer.py -e ascii on a list with UTF-8 bytes [%s] and run_trainer() with encoding ascii differ in %r' % (name, diff[:5]), 'cli-vs-library')
    acc.sample({'layer': 'cli', 'argv': ['-t', 'train.txt', '-r', 'cli', '-e', 'utf-8', '--coverage', '0.5', '--ngram', '3', '--prefixcount']}, cap=1)
    tree.rmtree(td)


# undecodable bytes in the other encodings the trainer's auto-detection can come up with (chardet names utf-16 / utf-32 from the BOM, the CJK and
# single-byte code pages from their statistics): exactly the offending line is skipped and counted, in every encoding
ENC_JUNK = [('ascii', b'ab\xffcd'), ('cp1252', b'ab\x81cd'), ('iso-8859-7', b'ab\xaecd'), ('shift_jis', b'ab\xff\xffcd'),
            ('shift_jis', b'ab\x81'), ('gb2312', b'ab\xff\xffcd'), ('big5', b'ab\xff\xffcd'), ('euc-kr', b'ab\xff\xffcd'),
            ('euc-jp', b'ab\xff\xffcd'), ('gb18030', b'ab\xff\xffcd'), ('cp949', b'ab\xff\xffcd'), ('utf-8', b'ab\xc3'),
            ('utf-8', b'\xa9abc'), ('utf-8', b'ab\xed\xa0\x80cd'), ('utf-8', b'ab\xf4\x90\x80\x80'), ('utf-8', b'ab\xc0\xafcd'),
            # a lone high surrogate, a low one before a high one (utf-16); a value beyond U+10FFFF, a surrogate value (utf-32)
            ('utf-16', b'a\x00b\x00\x00\xd8c\x00'), ('utf-16', b'a\x00b\x00\x00\xdc\x00\xd8'), ('utf-32', b'a\x00\x00\x00\xff\xff\xff\xff'),
            ('utf-32', b'a\x00\x00\x00\x00\xd8\x00\x00'),
            # undecodable units made of 7-bit bytes only: ASCII text pasted into a utf-32 list (0x72657771 is no code point)
            ('utf-32', b'a\x00\x00\x00qwer'), ('utf-32', b'qwer1234')]


def run_encjunk(tier, acc):
    from ..runner import step_deadline, StepTimeout
    tree.use()
    TFI = tree.imp('lib_trainer.trainer_file_input').TrainerFileInput
    wd = tree.mkdtemp('pcfgmc-c19e-')
    path = os.path.join(wd, 't.txt')
    # the third list is longer than the largest chunk the codec's stream reader asks for
    bases = [['password', 'password', 'letmein'], ['Pass word', ' lead', 'x1'], ['pw%04d' % i for i in range(3000)]]
    for enc, jb in ENC_JUNK:
        piece = {'utf-16': 'utf-16-le', 'utf-32': 'utf-32-le'}.get(enc, enc)
        bom = {'utf-16': b'\xff\xfe', 'utf-32': b'\xff\xfe\x00\x00'}.get(enc, b'')
        hangs = 0
        for seq in bases:
            for pos in (range(len(seq) + 1) if len(seq) < 10 else (0, 1, 1500, 2999, 3000)):
                for nl in ('\n', '\r\n'):
                    for reps in (1, 2):
                        if hangs >= 2:
                            continue      # two files of this kind already showed that the reader does not come back: do not wait for the others
                        lines = [p_.encode(piece) for p_ in seq]
                        lines[pos:pos] = [jb] * reps
                        data = bom + b''.join(l + nl.encode(piece) for l in lines)
                        acc.evals += 1
                        acc.nontrivial += 1
                        case = {'layer': 'encjunk', 'base': seq if len(seq) < 10 else 'pw0000..pw2999', 'encoding': enc, 'junk': jb.hex(), 'position': pos, 'newline': nl,
                                'repeats': reps}
                        if len(seq) < 10:
                            case['file_hex'] = data.hex()
                        with open(path, 'wb') as f:
                            f.write(data)
                        try:
                            with step_deadline(5):
                                got, npw, nerr = read_all(TFI, path, enc, False)
                                again = read_all(TFI, path, enc, False)
                        except StepTimeout:
                            hangs += 1
                            acc.fail(case, 'undecodable bytes %r on line %d of a %s file: the reader never returns (no end of file after 5 s for %d lines)' % (jb, pos, enc, len(lines)),
                                     'junk-hang:enc-' + enc)
                            continue
                        except Exception as e:
                            acc.fail(case, 'undecodable bytes %r in a %s file (line %d) make the reader raise %r' % (jb, enc, pos, e), 'junk-raise:enc-' + enc)
                            continue
                        if again != (got, npw, nerr):
                            acc.fail(case, 'two passes over the same %s file yield %r and %r' % (enc, (got[:5], npw, nerr), (again[0][:5],) + again[1:]), 'passes-differ:enc-' + enc)
                            continue
                        if got != seq or npw != len(seq) or nerr != reps:
                            extra = [g for g in got if g not in seq]
                            acc.fail(case, 'undecodable bytes %r on line %d of a %s file (x%d): reader yields %d passwords %r.., num_passwords=%d, num_encoding_errors=%d; expected the %d of %r.., %d, %d'
                                     % (jb, pos, enc, reps, len(got), got[:4], npw, nerr, len(seq), seq[:4], len(seq), reps), ('junk-leak:enc-' if extra else 'junk-loss:enc-') + enc)
    tree.rmtree(wd)


# lists for the layer without -e: the trainer names the encoding itself (chardet) before the reader sees the file.  Long enough for the detector to be
# sure of the plain file; every list has ASCII-only passwords among the others, and repeated lines
_RU = ['\u043f\u0430\u0440\u043e\u043b\u044c', '\u043f\u0440\u0438\u0432\u0435\u0442', '\u043b\u044e\u0431\u043e\u0432\u044c', '\u0441\u043e\u043b\u043d\u0446\u0435', '\u043d\u0430\u0442\u0430\u0448\u0430',
       '\u043c\u0430\u0440\u0438\u043d\u0430', '\u043c\u0430\u043a\u0441\u0438\u043c', '\u0441\u0435\u0440\u0433\u0435\u0439', '\u0430\u043d\u0434\u0440\u0435\u0439', '\u043c\u043e\u0441\u043a\u0432\u0430',
       '\u0440\u043e\u0441\u0441\u0438\u044f', '\u0441\u043f\u0430\u0440\u0442\u0430\u043a', '\u0437\u0435\u043d\u0438\u0442', '\u043b\u044e\u0431\u043b\u044e', '\u043c\u0430\u043b\u044b\u0448\u043a\u0430',
       '\u043a\u0440\u0430\u0441\u043e\u0442\u043a\u0430', '\u043f\u0440\u0438\u043d\u0446\u0435\u0441\u0441\u0430', '\u043a\u043e\u0442\u0435\u043d\u043e\u043a', '\u0437\u0430\u0439\u0447\u0438\u043a', '\u0430\u043d\u0433\u0435\u043b']
_DE = ['stra\u00dfe', 'm\u00fcller', 'sch\u00f6n', 'gr\u00fc\u00dfe', 'k\u00e4se', 'caf\u00e9', 'ni\u00f1o', 'fran\u00e7ais', '\u00e9t\u00e9', 'cr\u00e8me', 'b\u00e4r', 'l\u00f6we', 'j\u00e4ger', 'fu\u00dfball', 'm\u00e4dchen',
       'k\u00f6nig', 't\u00fcr', 'gl\u00fcck', 's\u00fc\u00df', 'h\u00e4nde']


def _auto_seq(words):
    seq = []
    for i, w in enumerate(words):
        seq += [w] * (1 + i % 3) + ['pass%d' % i] + [w + str(i)]
    return seq


AUTO_LISTS = [('cp1251', _RU), ('koi8-r', _RU), ('utf-8', _RU), ('utf-8', _DE), ('utf-16', _RU), ('ascii', ['monkey', 'dragon', 'letmein', 'shadow', 'master'])]


def auto_variants(seq, enc):
    """(name, bytes, prefixcount): hex for no line / the non-ASCII lines (what hashcat writes) / every line x LF, CRLF x repeated, counted (uniq -c layout and bare)"""
    piece = PIECE.get(enc, enc)
    for hexmode in ('none', 'non-ascii', 'all'):
        if hexmode != 'none' and enc in PIECE:
            continue
        for nl_name, nl in (('LF', '\n'), ('CRLF', '\r\n')):
            for prefix in ('', 'bare', 'uniq-c'):
                lines = []
                for pw, cnt in (runs(seq) if prefix else [(w, 1) for w in seq]):
                    body = hexform(pw, enc) if hexmode == 'all' or (hexmode == 'non-ascii' and not pw.isascii()) else pw
                    if prefix:
                        body = ('%d %s' if prefix == 'bare' else '%7d %s') % (cnt, body)
                    lines.append(body)
                yield '%s %s hex=%s' % (nl_name, prefix or 'repeated', hexmode), BOM.get(enc, b'') + ''.join(l + nl for l in lines).encode(piece), bool(prefix)


def run_autodetect(tier, acc):
    """trainer.py WITHOUT -e: the encoding is named by the trainer's own detection step, then the three passes read the file.  Every spelling of one
    list must train the ruleset of its plain LF spelling (config.ini included: the detected encoding is part of it)."""
    from .. import session as S
    import shutil
    try:
        import chardet      # noqa: F401  (the trainer asks on stdin whether to go on without it: nothing to explore then)
    except ImportError:
        acc.sample({'layer': 'autodetect', 'skipped': 'chardet is not installed in this interpreter'}, cap=1)
        return
    td = tree.scratch_tree()
    for enc, words in AUTO_LISTS:
        seq = _auto_seq(words)
        ref = None
        for name, data, prefix in auto_variants(seq, enc):
            tf = os.path.join(td, 'train.txt')
            with open(tf, 'wb') as f:
                f.write(data)
            argv = ['-t', tf, '-r', 'auto', '--coverage', '0.5', '--ngram', '3'] + (['--prefixcount'] if prefix else [])
            shutil.rmtree(os.path.join(td, 'Rules', 'auto'), ignore_errors=True)
            r = S.run_cli(td, 'trainer', argv)
            acc.evals += 1
            case = {'layer': 'autodetect', 'list_encoding': enc, 'words': words[:3], 'variant': name, 'file_hex': data.hex() if len(data) < 4000 else data[:4000].hex()}
            base_dir = os.path.join(td, 'Rules', 'auto')
            if r.exc or not os.path.exists(os.path.join(base_dir, 'Grammar', 'grammar.txt')):
                acc.fail(case, 'autodetect: trainer.py without -e on the %s list, spelling [%s], did not produce a ruleset (%s)'
                         % (enc, name, (r.exc or '').strip().splitlines()[-1:] or r.stdout[-3:]), 'auto-train:' + enc)
                continue
            t = P.tree_bytes(base_dir)
            cfg = t.get('config.ini', b'')
            det = [l for l in cfg.split(b'\n') if l.startswith(b'encoding')]
            t['config.ini'] = b'\n'.join(l for l in cfg.split(b'\n') if not l.startswith(b'number_of_encoding_errors'))
            if ref is None:
                ref = (name, t, det)
                continue
            acc.nontrivial += 1
            if t != ref[1]:
                diff = sorted(k for k in set(t) | set(ref[1]) if t.get(k) != ref[1].get(k))
                acc.fail(case, 'autodetect: trainer.py without -e: spelling [%s] of the %s list trains a ruleset that differs from spelling [%s] in %d files, e.g. %r (%s there, %s here)'
                         % (name, enc, ref[0], len(diff), diff[:4], ref[2][:1], det[:1]), 'auto-ruleset:%s:%s' % (enc, name.split(' ', 1)[1]))
    acc.sample({'layer': 'autodetect', 'argv': ['-t', 'train.txt', '-r', 'auto', '--coverage', '0.5', '--ngram', '3'], 'lists': [e for e, _ in AUTO_LISTS]}, cap=1)
    tree.rmtree(td)


def train_bytes_opts(wd, data, enc, prefix, rule, **opts):
    ok, base, out, pi = P.train(wd, None, rule=rule, raw_bytes=data, encoding=enc, prefixcount=prefix, **opts)
    if ok is not True:
        return None, out
    t = P.tree_bytes(base)
    t['config.ini'] = b'\n'.join(l for l in t.get('config.ini', b'').split(b'\n') if not l.startswith(b'number_of_encoding_errors'))
    return t, out


def run_shard(shard, tier, acc):
    if shard[0] == 'cli':
        return run_cli_layer(tier, acc)
    if shard[0] == 'seq':
        run_seq(shard, tier, acc)
    elif shard[0] == 'rules':
        run_rules(shard, tier, acc)
    elif shard[0] == 'long':
        run_long(tier, acc)
    elif shard[0] == 'encjunk':
        run_encjunk(tier, acc)
    elif shard[0] == 'autodetect':
        run_autodetect(tier, acc)
    else:
        run_junk(tier, acc)


def replay(case):
    if case.get('layer') == 'encjunk':
        from ..runner import Acc
        acc = Acc()
        run_encjunk('quick', acc)
        fs = [f for f in acc.failures if f['case'] == case]
        return fs[0]['msg'] if fs else None
    if case.get('layer') == 'autodetect':
        from ..runner import Acc
        acc = Acc()
        run_autodetect('quick', acc)
        fs = [f for f in acc.failures if f['case'].get('variant') == case.get('variant') and f['case'].get('list_encoding') == case.get('list_encoding')
              and f['case'].get('words') == case.get('words')]
        return fs[0]['msg'] if fs else None
    if case.get('layer') == 'long':
        from ..runner import Acc
        acc = Acc()
        run_long('quick', acc)
        fs = [f for f in acc.failures if f['case'] == case]
        return fs[0]['msg'] if fs else None
    if case.get('layer') == 'cli':
        from ..runner import Acc
        acc = Acc()
        run_cli_layer('quick', acc)
        fs = [f for f in acc.failures if f['case'].get('variant') == case.get('variant') and f['case'].get('base') == case.get('base')]
        return fs[0]['msg'] if fs else None
    tree.use()
    TFI = tree.imp('lib_trainer.trainer_file_input').TrainerFileInput
    wd = tree.mkdtemp('pcfgmc-c19x-')
    path = os.path.join(wd, 't.txt')
    data = bytes.fromhex(case['file_hex'])
    with open(path, 'wb') as f:
        f.write(data)
    prefix = 'prefixcount' in case.get('variant', '')
    try:
        got, npw, nerr = read_all(TFI, path, case['encoding'], prefix)
    except Exception as e:
        return 'reader raised %r' % (e,)
    finally:
        pass
    msg = None
    if 'plain_file_hex' in case:
        with open(path, 'wb') as f:
            f.write(bytes.fromhex(case['plain_file_hex']))
        twin = read_all(TFI, path, case['encoding'], False)
        tree.rmtree(wd)
        return None if twin == (got, npw, nerr) else 'plain file reads as %r, count-prefixed twin as %r' % (twin, (got, npw, nerr))
    if got != case['base']:
        msg = 'file is read as %r instead of %r' % (got, case['base'])
    elif case['layer'] == 'ruleset':
        vs = list(variants(case['base'], case['encoding']))
        topts = {'multiword_words': ['pass', 'word', 'lead']} if case.get('variant', '').endswith(' --multiword') else {}
        ref, _ = train_bytes(wd, vs[0][1], case['encoding'], vs[0][2], 'a', **topts)
        t, _ = train_bytes(wd, data, case['encoding'], prefix, 'b', **topts)
        if ref != t:
            msg = 'rulesets differ'
    tree.rmtree(wd)
    return msg
