"""Shared by C11 and C18: train small lists, capture the trainer's in-memory OMEN model, load the saved
model with the scorer's and the guesser's loaders, and compare levels / level sizes."""
import contextlib
import io
import itertools
import os
import sys
from collections import Counter

from .. import tree
from .. import pipeline as P


def train_capture(wd, lines, rule='o', raw_bytes=None, **opts):
    """Run the real trainer; additionally capture the AlphabetLookup object it saved (the third-pass model)."""
    tree.imp('lib_trainer.run_trainer')
    rt = sys.modules['lib_trainer.run_trainer']
    orig = rt.save_omen_rules_to_disk
    cap = {}

    def wrapped(omen_trainer, omen_keyspace, omen_levels_count, num_valid_passwords, base_directory, program_info):
        cap['trainer'] = omen_trainer
        cap['keyspace'] = Counter(omen_keyspace)
        cap['levels_count'] = Counter(omen_levels_count)
        cap['N'] = num_valid_passwords
        return orig(omen_trainer, omen_keyspace, omen_levels_count, num_valid_passwords, base_directory, program_info)
    rt.save_omen_rules_to_disk = wrapped
    try:
        ok, base, out, pi = P.train(wd, lines, rule=rule, raw_bytes=raw_bytes, **opts)
    finally:
        rt.save_omen_rules_to_disk = orig
    return ok, base, out, pi, cap


def load_guesser_omen(base):
    lr = tree.imp('lib_guesser.omen.input_file_io').load_rules
    g = {}
    sink = io.StringIO()
    with contextlib.redirect_stdout(sink), contextlib.redirect_stderr(sink):
        ok = lr(os.path.join(base, 'Omen'), g)
    return g if ok else None


def load_scorer_omen(base, encoding):
    OS = tree.imp('lib_scorer.omen_scorer').OmenScorer
    sink = io.StringIO()
    with contextlib.redirect_stdout(sink), contextlib.redirect_stderr(sink):
        return OS(base, encoding, 10)


class GuesserModel:
    """Reference semantics of the guesser's loaded OMEN grammar: level of a string, number of strings per level."""

    def __init__(self, g):
        # a table "level -> entries" may be a dictionary keyed by level or a list indexed by level (an empty entry = nothing on that level)
        def by_level(t):
            return t.items() if hasattr(t, 'items') else enumerate(t)
        self.n = g['ngram']
        self.ip = {}
        for lvl, lst in by_level(g['ip']):
            for x in lst:
                self.ip.setdefault(x, []).append(lvl)
        self.cp = {}
        for ctx, d in g['cp'].items():
            for lvl, chars in by_level(d):
                for ch in chars:
                    self.cp.setdefault(ctx, {}).setdefault(ch, []).append(lvl)
        self.ln = {}          # number of transitions -> [levels]
        for lvl, lst in by_level(g['ln']):
            for ncp in lst:
                self.ln.setdefault(ncp, []).append(lvl)

    def levels_of(self, s):
        """All levels at which the generator would emit s (normally zero or one)."""
        n = self.n
        ncp = len(s) - (n - 1)
        if ncp < 1 or ncp not in self.ln:
            return []
        outs = []
        for ll in self.ln[ncp]:
            for il in self.ip.get(s[:n - 1], []):
                totals = [ll + il]
                ok = True
                for i in range(n - 1, len(s)):
                    ctx = s[i - (n - 1):i]
                    lv = self.cp.get(ctx, {}).get(s[i])
                    if not lv:
                        ok = False
                        break
                    totals = [t + x for t in totals for x in lv]
                if ok:
                    outs.extend(totals)
        return outs

    def count_per_level(self, max_level):
        """{level: number of emitted strings} by dynamic programming over (context, transitions left, level left)."""
        memo = {}

        def cnt(ctx, rem, lvl):
            if lvl < 0:
                return 0
            if rem == 0:
                return 1 if lvl == 0 else 0
            key = (ctx, rem, lvl)
            if key in memo:
                return memo[key]
            tot = 0
            for ch, lvs in self.cp.get(ctx, {}).items():
                for lv in lvs:
                    if lv <= lvl:
                        tot += cnt((ctx + ch)[1:] if self.n > 2 else ch, rem - 1, lvl - lv)
            memo[key] = tot
            return tot
        res = Counter()
        for L in range(0, max_level + 1):
            for ncp, lls in self.ln.items():
                for ll in lls:
                    for ip, ils in self.ip.items():
                        for il in ils:
                            r = L - ll - il
                            if r >= 0:
                                res[L] += cnt(ip, ncp, r)
        return res


def new_optimizer():
    return tree.imp('lib_guesser.omen.optimizer').Optimizer(max_length=4)


def emitted_at(g, L, cap=50000, optimizer=None):
    MC = tree.imp('lib_guesser.omen.markov_cracker').MarkovCracker
    mc = MC(g, L, optimizer if optimizer is not None else new_optimizer())
    out = []
    while True:
        s = mc.next_guess()
        if s is None:
            return out, False
        out.append(s)
        if len(out) > cap:
            return out, True
