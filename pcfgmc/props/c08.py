"""C08 — resume loses nothing and repeats at most the tied group.

E-hist over the history graph of a ruleset: the restore reads only (min_probability,
max_probability) and the ruleset, so the state after any quit/resume history is the saved float p.
Nodes = distinct probabilities of the language (+ initial), edge (p, k) = "resume from p, quit when
the k-th pop is noticed" -> prob(R_p[k]).  Every node's complete resumed stream R_p is computed with
the real PcfgQueue restore path and checked, which covers every edge and hence quit/resume
sequences of every length.  Seam-4 layer: real .sav files written and read by pcfg_guesser.main().
"""
import configparser
import itertools
import os
from collections import Counter

from .. import tree
from .. import rulesets as R
from .. import session as S
from ..runner import step_deadline, StepTimeout
from . import queue_common as Q
from . import queue_disk as D

ID = 'C08'
LEVEL = 'model_checking'
RULE = ('state = saved probability p (the only thing the restore reads besides the ruleset); for every ruleset of the '
        'families in coverage.bounds and EVERY node p of its history graph the complete resumed stream R_p is produced by the '
        'real restore path and checked against the reference language: non-increasing, nothing above p, everything below p '
        'exactly once, everything equal to p at least once and at most its multiplicity; transitions = edges (p,k) of the '
        'history graph; non-trivial = node whose probability ties with another pre-terminal or with a parent of a lower node; '
        'session layer: quit at every guess position j of real pcfg_guesser runs, resume chains via real .sav files (first run under each of the 4 skip_brute/all_lower flag sets, resumed runs started without flags), UUID refusal')
ASSUMPTIONS = [
    'canonicalisation: two histories that save the same max_probability start identical processes (restore reads only min/max probability and the ruleset)',
    'min_probability is always 0.0 (the tool never writes another value)',
    'virtual user: quit is delivered after the j-th printed guess with the keyboard thread finishing promptly (other schedules: C12)',
]
NSHARDS = 64


def families(tier):
    fam = {}
    fam['single_quick'] = lambda: R.family_single(R.V_QUICK, 3, [1.0, 0.5], patterns=['A', 'AA', 'AB', 'AAA', 'AAB', 'ABA', 'ABB'])
    fam['single_abc'] = lambda: R.family_single([1.0, 0.5, 0.25, 0.3], 3, [0.5], patterns=['ABC'])
    fam['pairs_tiny'] = lambda: R.family_multi(R.V_TINY, 2, [0.5, 0.25], 2)
    fam['underflow'] = lambda: R.family_single(R.V_UNDER, 2, [1.0, 5e-324], patterns=['AA', 'AB', 'ABA'])
    if tier == 'thorough':
        fam['single_full2'] = lambda: R.family_single(R.V_FULL, 3, [1.0, 0.3], patterns=['AA', 'AB', 'AAB', 'ABA', 'ABB', 'AAA'])
        fam['single_abc5'] = lambda: R.family_single(R.V_QUICK, 3, [0.5], patterns=['ABC'])
        fam['pairs_quick'] = lambda: R.family_multi(R.V_QUICK, 2, [0.5, 0.25], 2)
        fam['triples_tiny'] = lambda: R.family_multi(R.V_TINY, 2, [0.5, 0.25], 3)
        fam['single_4vars'] = lambda: R.family_single([1.0, 0.5, 0.25, 0.3], 2, [0.5], patterns=R.PATTERNS4)
    return fam


def deep_rulesets(tier):
    """Rulesets whose restore walk is deep: one transition with more than a thousand groups of distinct probability (the interpreter's default
    recursion limit is 1000; real rulesets have A / D lists of this size)."""
    out = []
    for n in ((1100,) if tier == 'quick' else (1100, 2500)):
        tot = n * (n + 1) / 2.0
        long = [(n - i) / tot for i in range(n)]
        out.append(({'A': long}, [(1.0, ['A'])]))
        out.append(({'A': long, 'B': [0.6, 0.4]}, [(0.5, ['A']), (0.3, ['B', 'A']), (0.2, ['B'])]))
        out.append(({'A': long, 'B': [0.6, 0.4]}, [(0.6, ['A', 'B']), (0.4, ['B'])]))
    # the same long transition twice in one structure: late in the run the restore walk is deeper than the transition is long
    m = 700
    tot = m * (m + 1) / 2.0
    out.append(({'A': [(m - i) / tot for i in range(m)]}, [(1.0, ['A', 'A'])]))
    return out


def shards(tier):
    return [('mem', name, i, NSHARDS) for name in families(tier) for i in range(NSHARDS)] + \
           [('sess', i, 16) for i in range(16)] + [('deep', i) for i in range(len(deep_rulesets(tier)))]


def bounds(tier):
    return {'families': sorted(families(tier)), 'nodes': 'every distinct probability of every ruleset',
            'session_layer': 'disk rulesets %s; quit after every guess j in 0..total; resume chains depth 3' % ('(1..2 structures)')}


def save_config(p, minp=0.0):
    cfg = configparser.ConfigParser()
    cfg.add_section('guessing_info')
    cfg.set('guessing_info', 'min_probability', str(minp))
    cfg.set('guessing_info', 'max_probability', str(p))
    return cfg


def drain(q, cap):
    out = []
    while True:
        it = q.next()
        if it is None:
            return out
        out.append(((tuple(tuple(x) for x in it['pt']), it['base_prob']), it['prob']))
        if len(out) > cap:
            out.append((('RUNAWAY',), -1.0))
            return out


def check_resumed(mult, probs, p, stream):
    """mult: Counter key->multiplicity, probs: key->prob (reference), stream: [(key, prob)]"""
    msgs = []
    last = None
    seen = Counter()
    for key, pr in stream:
        if key == ('RUNAWAY',):
            msgs.append('runaway: resumed stream longer than twice the language')
            break
        if last is not None and pr > last:
            msgs.append('order: resumed stream not non-increasing (%r after %r)' % (pr, last))
        last = pr
        if pr > p:
            msgs.append('above: %r has probability %r above the saved position %r' % (key[0], pr, p))
        seen[key] += 1
    for key, m in mult.items():
        pr = probs[key]
        n = seen.get(key, 0)
        if pr < p:
            if n < m:
                msgs.append('lost: %r (prob %r < saved %r) emitted %d times, expected %d' % (key[0], pr, p, n, m))
            elif n > m:
                msgs.append('repeat: %r (prob %r < saved %r) emitted %d times, expected %d' % (key[0], pr, p, n, m))
        elif pr == p:
            if n < 1:
                msgs.append('lost: %r (prob == saved %r) not emitted' % (key[0], p))
            elif n > m:
                msgs.append('repeat: %r (prob == saved %r) emitted %d times, multiplicity %d' % (key[0], p, n, m))
        else:
            if n:
                msgs.append('above: %r (prob %r > saved %r) emitted again' % (key[0], pr, p))
    return msgs[:4]


def deep_nodes(nodes):
    """History-graph nodes explored on a deep ruleset: the first ones, the last twelve, and 24 spread evenly (every node would be quadratic)."""
    n = len(nodes)
    if n > 50000:
        # a grid of several hundred thousand pre-terminals: the last twelve nodes and three more in the last two per cent (where the walk is deepest)
        idx = set(range(n - 12, n)) | {n - n // 50, n - n // 100, n - n // 200}
        return [nodes[i] for i in sorted(idx)]
    idx = set(range(0, min(n, 3))) | set(range(max(0, n - 12), n)) | set(int(i * (n - 1) / 23.0) for i in range(24))
    return [nodes[i] for i in sorted(idx)]


def explore_mem(mods, types, base, acc, pick=None):
    PcfgGrammar, PcfgQueue = mods
    g = R.mem_grammar(PcfgGrammar, types, base)
    mult = Q.grid_of(types, base)
    total = sum(mult.values())
    U = drain(PcfgQueue(g), 2 * total + 5)
    probs = {key: pr for key, pr in U}
    fails = []
    if Counter(k for k, _ in U) != mult:
        # C02's business; without a complete U there is no reference for the resumed stream
        acc.count('skipped_incomplete_uninterrupted_run')
        return None
    nodes = sorted(set(probs.values()), reverse=True)
    pcount = Counter(probs.values())
    # parents tied with a lower node: the F1 pattern
    for p in (pick(nodes) if pick else nodes):
        acc.states += 1
        try:
            # (one node = one restore + one complete resumed stream.  Today's code needs about 2 s for the largest ruleset of the deep layer and
            # milliseconds elsewhere; a restore walk that has lost its pruning needs hours there: after 300 s the node is reported instead of waited for)
            with step_deadline(300):
                Rp = drain(PcfgQueue(g, save_config(p)), 2 * total + 5)
        except StepTimeout:
            fails.append((p, 'runaway: restoring the queue at this position and draining it did not end within 300 s (grid of %d pre-terminals)' % total))
            break
        except Exception as e:
            fails.append((p, 'crash: restoring / draining the queue raised %r' % (e,)))
            break
        acc.transitions += len(Rp)
        msgs = check_resumed(mult, probs, p, Rp)
        if pcount[p] > 1:
            acc.count('nodes_tied_with_another_preterminal')
        for m in msgs:
            fails.append((p, m))
        if msgs:
            break
    return fails, len(nodes), sum(1 for p in nodes if pcount[p] > 1)


def run_mem(shard, tier, acc):
    _, name, si, ns = shard
    tree.use()
    mods = (tree.imp('lib_guesser.pcfg_grammar').PcfgGrammar, tree.imp('lib_guesser.priority_queue').PcfgQueue)
    for idx, (types, base) in enumerate(families(tier)[name]()):
        if idx % ns != si:
            continue
        R.well_formed(types, base)
        acc.evals += 1
        res = explore_mem(mods, types, base, acc)
        if not res:
            continue
        fails, nnodes, ntied = res
        acc.nontrivial += ntied
        if idx % 50 == 0:
            res2 = explore_mem(mods, types, base, Q.Acc0)
            acc.validated += 1
            if res2[0] != fails:
                fails.append((None, 'nondeterministic: two explorations of the same ruleset differ'))
        case = {'kind': 'mem', 'types': types, 'base': base}
        for p, m in fails:
            c = dict(case, p=p)
            acc.fail(c, 'saved max_probability=%r: %s' % (p, m), sig=signature(m))
        if idx % 499 == si:
            acc.sample({'family': name, 'types': types, 'base': base, 'history_graph_nodes': nnodes}, cap=1)


KEYWORDS = ('lost-guess', 'runaway', 'order', 'above', 'lost', 'repeat', 'crash', 'nosave', 'uuid', 'harness', 'nondeterministic')


def signature(msg):
    for part in msg.split(': '):
        w = part.split(':')[0]
        if w in KEYWORDS:
            return w
    return 'other'


# ---------------------------------------------------------------------------------------------
# session layer
# ---------------------------------------------------------------------------------------------

def session_specs(tier):
    specs = []
    t0, t1 = D.TERMINALS[0], D.TERMINALS[1]
    cands = [
        (t0, [('A1D1', .5), ('D2', .25)]),
        (t0, [('D1D1', .5), ('A1', .5)]),
        (t0, [('A2A1', .4), ('Y1O1', .4)]),
        (t1, [('D1D1', .5), ('A1D1', .3)]),
        (t0, [('D1A1', 1.0)]),
        (t1, [('K4X1', .5), ('D1', .5)]),
        # probabilities down to 1e-50: the saved position has to survive the trip through the text of the .sav file digit for digit
        (D.TERMINALS[3], [('A1D1', .5), ('D1O1', .5)]),
    ]
    if tier == 'thorough':
        cands += [
            (t0, [('A1O1A2', .5), ('D1D1', .25), ('A1', .25)]),
            (t1, [('A1O1A2', .5), ('D1D1', .3), ('Y1O1', .2)]),
            (t1, [('A2A1', .7), ('D1A1', .3)]),
            (t0, [('D1D1', .5), ('D1D1', .5)]),
        ]
    for term, gr in cands:
        spec = dict(term)
        spec['grammar'] = gr
        spec['prince'] = D.PRINCE
        specs.append(spec)
    # Markov levels next to each other in the order of the run (what a low --coverage gives): a quit inside one of them saves a position at which
    # the next pre-terminal is a Markov level again.  What happens inside the interrupted level is C15's; here: no pre-terminal is lost
    from . import c15
    for gr, op in (([('M', .6), ('D1', .4)], [(1, .5), (2, .25), (3, .125)]), ([('D1', .3), ('M', .7)], [(1, .5), (2, .5), (3, .125)])):
        spec = dict(t0)
        spec.update(grammar=gr, prince=D.PRINCE, omen=c15.omen(c15.OMEN_X, op))
        specs.append(spec)
    return specs


def run_sess(shard, tier, acc):
    _, si, ns = shard
    specs = session_specs(tier)
    td = None
    for idx, spec in enumerate(specs):
        if idx % ns != si:
            continue
        if td is None:
            td = tree.scratch_tree()
        R.write_ruleset(os.path.join(td, 'Rules', 'v'), spec)
        # the flags of the first run are stored in the .sav; the resumed runs are started WITHOUT them and must continue the flagged stream
        for flags in FLAGSETS:
            fails = explore_session(td, spec, acc, flags)
            case = {'kind': 'sess', 'spec': spec, 'flags': list(flags)}
            for m in fails:
                acc.fail(case, ('[%s] ' % ' '.join(flags) if flags else '') + m, sig='sess:' + signature(m))
        acc.sample({'kind': 'session', 'grammar': spec['grammar']}, cap=1)
    if td:
        tree.rmtree(td)


def pt_events(run):
    return [e[1] for e in run.events if e[0] == 'pt']


FLAGSETS = [(), ('--skip_brute',), ('--all_lower',), ('--skip_brute', '--all_lower')]


def explore_session(td, spec, acc, flags=()):
    """BFS over saved states reached through real runs; state = canonical .sav."""
    fails = []
    types, base = R.ref_loaded(spec, '--skip_brute' in flags, '--all_lower' in flags)
    tp = {t: [p for p, _ in g] for t, g in types.items()}
    mult = Counter()
    probs = {}
    for bp, reps in base:
        for idx in itertools.product(*[range(len(tp[r])) for r in reps]):
            pt = tuple(zip(reps, idx))
            mult[pt] += 1
            probs[pt] = R.float_product(bp, [tp[t][i] for t, i in pt])
    S.clear_session(td)
    U = S.run_guesser(td, ['-r', 'v'] + list(flags))
    acc.evals += 1
    if U.exc:
        return ['harness: uninterrupted run raised %s' % U.exc]
    Upts = pt_events(U)
    if Counter(Upts) != mult:
        return ['harness: uninterrupted run does not cover the reference language (C02/C04 territory)']
    total_guesses = sum(e[2] for e in U.events if e[0] == 'pt')
    seen = {}
    frontier = [(None, None, 0, None)]     # (sav_raw, max_prob, depth, .omn bytes)
    maxdepth = 3
    while frontier:
        sav_raw, p, depth, omn = frontier.pop(0)
        # the complete stream from this state (guess level): what a quit run and its resumed run must deliver between them
        if sav_raw is None:
            full = Counter(U.stdout)
        else:
            S.set_session(td, sav_raw, omn)
            F = S.run_guesser(td, ['-r', 'v', '--load'])
            acc.evals += 1
            full = Counter(F.stdout) if not F.exc else None
        # all quit moments from this state
        for j in range(0, total_guesses + 1):
            S.set_session(td, sav_raw, omn)
            argv = ['-r', 'v'] + (['--load'] if sav_raw is not None else list(flags))
            A = S.run_guesser(td, argv, quit_after=j)
            acc.evals += 1
            acc.transitions += 1
            if A.exc:
                fails.append('crash: run with quit_after=%d from %r raised %s' % (j, p, A.exc.strip().splitlines()[-1]))
                return fails
            if not A.fired:
                break      # j beyond the end of this (resumed) run
            if A.sav is None:
                fails.append('nosave: quit at guess %d but no .sav written' % j)
                continue
            newp = float(A.sav['guessing_info.max_probability'])
            # the resumed run must complete the stream
            B = S.run_guesser(td, ['-r', 'v', '--load'])
            acc.evals += 1
            if B.exc:
                fails.append('crash: --load raised %s' % B.exc.strip().splitlines()[-1])
                return fails
            apts = pt_events(A)
            # the quitting run notices the quit after a pop; that popped pt is not guessed
            stream = [((pt, None), probs.get(pt, -1.0)) for pt in pt_events(B)]
            m2 = Counter({(k, None): v for k, v in mult.items()})
            p2 = {(k, None): v for k, v in probs.items()}
            msgs = check_resumed(m2, p2, newp, stream)
            # what the quitting run had already guessed comes again only if it is tied with the saved position
            # (a quit that arrives during the very last pre-terminal is never noticed: the run ends, nothing is saved at that point and there is
            # nothing to resume - excluded, as in C15)
            noticed = 'Saving Session Info' in A.stderr
            again = [pt for pt in set(pt_events(B)) if pt in set(apts) and probs.get(pt) != newp and not (pt[0][0] == 'M')]
            if again and noticed:
                msgs.append('repeat: %r (prob %r) was guessed before the quit and is guessed again by the resumed run although the saved position is %r'
                            % (again[0], probs.get(again[0]), newp))
            # A ++ B covers U
            cover = Counter(apts) + Counter(pt_events(B))
            for pt, m in mult.items():
                if sav_raw is None and cover[pt] < m:
                    msgs.append('lost: %r appears in neither run A (quit at guess %d) nor run B' % (pt, j))
                    break
            # the same at guess level: a pre-terminal that was begun before the quit is not begun again, so every one of its strings has to be out
            if full is not None:
                short = full - (Counter(A.stdout) + Counter(B.stdout))
                if short:
                    msgs.append('lost-guess: %d strings of the complete stream from this state are written neither by the run that quit at guess %d nor by the resumed run (e.g. %r)'
                                % (sum(short.values()), j, sorted(short)[:4]))
            for m in msgs[:2]:
                fails.append('quit_after=%d from state %r -> saved %r: %s' % (j, p, newp, m))
            key = (tuple(sorted((k, v) for k, v in A.sav.items() if k.startswith('guessing_info'))), A.omn)
            if key not in seen:
                seen[key] = True
                acc.states += 1
                if depth + 1 < maxdepth:
                    frontier.append((A.sav_raw, newp, depth + 1, A.omn))
            if len(fails) > 6:
                return fails
    # UUID refusal
    S.clear_session(td)
    A = S.run_guesser(td, ['-r', 'v'], quit_after=1)
    spec2 = dict(spec, uuid='11111111-1111-4111-8111-111111111111')
    R.write_ruleset(os.path.join(td, 'Rules', 'v'), spec2)
    B = S.run_guesser(td, ['-r', 'v', '--load'])
    acc.evals += 1
    if [l for l in B.stdout if l != ''] or B.events:
        fails.append('uuid: session saved for another ruleset uuid was not refused (%d lines emitted)' % len(B.stdout))
    R.write_ruleset(os.path.join(td, 'Rules', 'v'), spec)
    return fails


def run_deep(shard, tier, acc):
    tree.use()
    mods = (tree.imp('lib_guesser.pcfg_grammar').PcfgGrammar, tree.imp('lib_guesser.priority_queue').PcfgQueue)
    types, base = deep_rulesets(tier)[shard[1]]
    R.well_formed(types, base)
    acc.evals += 1
    import contextlib
    import io
    sink = io.StringIO()
    with contextlib.redirect_stderr(sink), contextlib.redirect_stdout(sink):
        res = explore_mem(mods, types, base, acc, pick=deep_nodes)
    if not res:
        acc.fail({'kind': 'deep', 'index': shard[1]}, 'lost: the uninterrupted run over the deep ruleset %d is not the whole language' % shard[1], sig='lost')
        return
    fails, nnodes, ntied = res
    acc.nontrivial += 1
    for p, m in fails:
        acc.fail({'kind': 'deep', 'index': shard[1], 'groups': len(types['A']), 'base': base, 'p': p}, 'deep ruleset (%d groups in one transition), saved max_probability=%r: %s'
                 % (len(types['A']), p, m), sig=signature(m))
    acc.sample({'family': 'deep', 'groups': len(types['A']), 'base': base, 'history_graph_nodes': nnodes, 'nodes_explored': len(deep_nodes(list(range(nnodes))))}, cap=1)


def run_shard(shard, tier, acc):
    if shard[0] == 'deep':
        return run_deep(shard, tier, acc)
    if shard[0] == 'mem':
        run_mem(shard, tier, acc)
    else:
        run_sess(shard, tier, acc)


def replay(case):
    tree.use()
    if case['kind'] == 'mem':
        mods = (tree.imp('lib_guesser.pcfg_grammar').PcfgGrammar, tree.imp('lib_guesser.priority_queue').PcfgQueue)
        types = {k: [float(x) for x in v] for k, v in case['types'].items()}
        base = [(float(p), list(r)) for p, r in case['base']]
        res = explore_mem(mods, types, base, Q.Acc0)
        if res and res[0]:
            return '; '.join('p=%r %s' % f for f in res[0][:3])
        return None
    if case['kind'] == 'deep':
        from ..runner import Acc
        acc = Acc()
        run_deep(('deep', case['index']), 'thorough' if case.get('groups', 0) > 1100 else 'quick', acc)
        return acc.failures[0]['msg'] if acc.failures else None
    spec = D.fix_spec(case['spec'])
    td = tree.scratch_tree()
    R.write_ruleset(os.path.join(td, 'Rules', 'v'), spec)
    from ..runner import Acc
    fails = explore_session(td, spec, Acc(), tuple(case.get('flags', ())))
    tree.rmtree(td)
    return '; '.join(fails[:3]) if fails else None
