"""C07 — a saved ruleset means the same thing to every tool that loads it.

Layer A (terminal role): every Unicode scalar value >= U+0020 in three positions of a terminal value, filtered by the real
check_valid, written by the real writer in batches, read back by the guesser's and the scorer's line readers.
Layer B (OMEN role + end to end): batches of passwords x<c>yz trained by the real trainer; the trainer's in-memory OMEN model is
compared with what the guesser's and the scorer's OMEN loaders return; every terminal file is read by three readers (independent
LF-only reader, guesser loader, scorer loader) which must agree; config.ini file lists must name exactly the files that exist, also when a rule
name is trained again (every history of 2 / 3 trainings over five lists that fill different categories).
"""
import codecs
import contextlib
import io
import itertools
import os
import sys
import unicodedata
from collections import Counter

from .. import tree
from .. import pipeline as P
from . import omen_common as O

ID = 'C07'
LEVEL = 'exploration'
RULE = ('exhaustive over single special characters: every Unicode scalar value >= U+0020 (1,112,032 - 32 code points; quick: terminal role complete in the inner position plus all three positions for the '
        'categories Z*, Cc, Cf and everything str.splitlines/str.strip treat specially; thorough: every code point x 3 positions x both roles) and the complete 8-bit repertoires of latin-1 and cp1251 plus a utf-16 slice; '
        'a value accepted by the real check_valid is written by the real writer and must come back unchanged from the guesser and scorer readers; OMEN role: passwords x<c>yz trained in batches, in-memory model vs. both OMEN loaders; '
        'a failing batch is bisected to the code point; non-trivial = accepted code point that is not ASCII alphanumeric')
ASSUMPTIONS = ['single special characters only; interactions of two special characters inside one value are not covered',
               'batches of 4096 values per file (terminal role) / 192 passwords per training (OMEN role); a mismatch in a batch is re-tested value by value',
               'the process runs with a UTF-8 locale (LC_ALL=C.UTF-8); readers that ignore the ruleset encoding are exposed by the latin-1/cp1251 rulesets']
BATCH = 4096
TBATCH = 192


def scalar_values():
    for cp in range(0x20, 0x110000):
        if 0xD800 <= cp <= 0xDFFF:
            continue
        yield cp


def special_cps():
    out = []
    for cp in scalar_values():
        ch = chr(cp)
        cat = unicodedata.category(ch)
        if cat[0] == 'Z' or cat in ('Cc', 'Cf') or ch.isspace() or len(('a' + ch + 'b').splitlines()) > 1 or ('a' + ch).strip() != 'a' + ch:
            out.append(cp)
    # plus block edges and a few classics
    out += [0x21, 0x7E, 0x7F, 0x80, 0xFF, 0x100, 0x130, 0xDF, 0x3B1, 0x430, 0xFFFD, 0xFFFE, 0xFFFF, 0x10000, 0x1F600, 0x10FFFF, 0xFEFF, 0x22, 0x27, 0x5C, 0x25, 0x5B, 0x5D, 0x3D, 0x23, 0x3B]
    return sorted(set(out))


def positions(ch):
    return [ch + 'x', 'x' + ch + 'y', 'x' + ch]


def jobs(tier):
    """list of shard descriptors"""
    sh = []
    allcp = 0x110000
    step = 0x8000
    # terminal role
    for lo in range(0, allcp, step):
        sh.append(('term', 'utf-8', lo, min(lo + step, allcp), 'all3' if tier == 'thorough' else 'inner'))
    sh.append(('term_special', 'utf-8'))
    for enc in ('latin-1', 'cp1251'):
        sh.append(('term8', enc))
    sh.append(('term_special', 'utf-16'))
    # OMEN role / end to end
    if tier == 'thorough':
        for lo in range(0, allcp, 0x2000):
            sh.append(('omen', 'utf-8', lo, min(lo + 0x2000, allcp)))
    else:
        sp = special_cps()
        for i in range(0, len(sp), 150):
            sh.append(('omen_list', 'utf-8', sp[i:i + 150]))
        sh.append(('omen', 'utf-8', 0x20, 0x300))
    # (cp437 / mac_roman: code pages with capital letters whose small letter they do not have)
    for enc in ('latin-1', 'cp1251', 'cp437', 'mac_roman'):
        sh.append(('omen8', enc))
    for enc in ('utf-8', 'latin-1'):
        sh.append(('hexjunk', enc))
    sh.append(('retrain', 'utf-8'))
    sh.append(('locale', 0))
    sh.append(('flat', 0))
    sh.append(('probs', 0))
    # terminal files of more than 10 000 lines (what any real list gives), also under encodings that start a stream with a byte order mark
    for enc in ('utf-8', 'utf-16', 'utf-8-sig'):
        sh.append(('bigfile', enc))
    # a 16-bit encoding end to end (not ASCII compatible: exposes readers that ignore the ruleset encoding)
    sh.append(('omen_list', 'utf-16', [0x20, 0x41, 0x61, 0xE9, 0x430, 0x20AC, 0x3042, 0x1F600, 0xA0, 0x3000, 0x21, 0x31]))
    return sh


def shards(tier):
    return jobs(tier)


def bounds(tier):
    return {'code_points': 'U+0020..U+10FFFF without surrogates', 'special_code_points': len(special_cps()),
            'positions': ['c+x', 'x+c+y', 'x+c'], 'encodings': ['utf-8', 'latin-1', 'cp1251', 'utf-16 (special code points; 12 code points end to end)'],
            'omen_role': 'every code point' if tier == 'thorough' else 'special code points + U+0020..U+02FF',
            'terminal_role': 'every code point x 3 positions' if tier == 'thorough' else 'every code point (inner position) + special code points x 3 positions'}


# ----------------------------------------------------------------------------------------------
def get_mods():
    tree.use()
    m = {}
    m['check_valid'] = tree.imp('lib_trainer.trainer_file_input').check_valid
    m['save'] = tree.imp('lib_trainer.save_pcfg_data').calculate_and_save_counter
    m['gload'] = tree.imp('lib_guesser.grammar_io')._load_from_file
    m['sload'] = tree.imp('lib_scorer.grammar_io')._load_from_file
    return m


def roundtrip(m, path, values, enc):
    """write values with the real writer, read with both readers; -> None or message"""
    ctr = Counter()
    for v in values:
        ctr[v] += 1
    sink = io.StringIO()
    with contextlib.redirect_stdout(sink), contextlib.redirect_stderr(sink):
        ok = m['save'](path, ctr, enc)
        if not ok:
            return 'writer failed: %s' % sink.getvalue()[-120:]
        sec = []
        okg = m['gload'](sec, path, enc)
        sc = {}
        oks = m['sload'](sc, path, enc)
    want = list(ctr)
    got = [v for grp in sec for v in grp['values']]
    if not okg or got != want:
        return 'guesser reader returned %d values for %d written%s' % (len(got), len(want), first_diff(got, want))
    if not oks or list(sc) != want:
        return 'scorer reader returned %d values for %d written%s' % (len(sc), len(want), first_diff(list(sc), want))
    probs = set(grp['prob'] for grp in sec) | set(sc.values())
    if len(probs) != 1 or abs(next(iter(probs)) - 1 / len(want)) > 1e-15:
        return 'probabilities changed on the way: %r' % (sorted(probs)[:3],)
    return None


def first_diff(got, want):
    for i, (a, b) in enumerate(zip(got, want)):
        if a != b:
            return '; first difference at #%d: read %r, written %r' % (i, a, b)
    return '; sequences differ in length'


def cp_name(ch):
    return 'U+%04X' % ord(ch)


def run_terminal(m, enc, cps, mode, acc, root):
    """cps: iterable of code points"""
    path = os.path.join(root, 'f.txt')
    vals = []
    src = []
    seen_vals = set()

    def flush():
        seen_vals.clear()
        if not vals:
            return
        acc.evals += len(vals)
        acc.count('terminal_batches')
        msg = roundtrip(m, path, vals, enc)
        if msg:
            # bisect: value by value
            bad = 0
            for v, ch in zip(vals, src):
                mm = roundtrip(m, path, ['aa', v, 'zz'], enc)
                if mm:
                    bad += 1
                    acc.fail({'layer': 'terminal', 'encoding': enc, 'value': v, 'char': cp_name(ch)},
                             'terminal value %r (%s, encoding %s) accepted by check_valid does not survive the line format: %s' % (v, cp_name(ch), enc, mm),
                             'terminal:' + cp_name(ch))
            if not bad:
                acc.fail({'layer': 'terminal', 'encoding': enc, 'batch_first': cp_name(src[0])}, 'batch starting at %s: %s (not reproducible value by value)' % (cp_name(src[0]), msg), 'terminal:batch')
        del vals[:]
        del src[:]
    for cp in cps:
        ch = chr(cp)
        try:
            ch.encode(enc)
        except UnicodeEncodeError:
            continue
        forms = positions(ch) if mode == 'all3' else [positions(ch)[1]]
        for v in forms:
            if not m['check_valid'](v):
                acc.count('rejected_by_check_valid')
                continue
            if v in seen_vals:
                continue        # e.g. 'x'+'x' for the filler letters themselves
            seen_vals.add(v)
            vals.append(v)
            src.append(ch)
            if not (ch.isascii() and ch.isalnum()):
                acc.nontrivial += 1
        if len(vals) >= BATCH:
            flush()
    flush()


# ----------------------------------------------------------------------------------------------
class ScorerGrammar:
    def __init__(self):
        self.encoding = None
        self.count_years = Counter()
        self.count_context_sensitive = Counter()
        self.count_base_structures = Counter()
        self.count_keyboard = {}
        self.count_alpha = {}
        self.count_alpha_masks = {}
        self.count_digits = {}
        self.count_other = {}


def compare_training(wd, lines, enc, acc, case, raw_bytes=None, keep_existing=False, save_sensitive=False):
    """one training; returns list of (sig, msg)"""
    fails = []
    ok, base, out, pi, cap = O.train_capture(wd, lines, rule='c7', encoding=enc, ngram=2, alphabet_size=100000, coverage=0.5, raw_bytes=raw_bytes, keep_existing=keep_existing,
                                             save_sensitive=save_sensitive)
    if ok is not True or 'trainer' not in cap:
        if "codec can't encode" in out and 'something went wrong saving' in out:
            # the writer refused a value that the ruleset's encoding cannot hold (the small letter of a capital in a code page that lacks it): no ruleset
            # is declared saved, so there is nothing for two readers to disagree about
            acc.count('trainings_refused_by_the_writer_unencodable_value')
            return []
        return [('train', 'training did not complete: %s' % out[-160:])]
    tr = cap['trainer']
    # ---- OMEN loaders
    g = O.load_guesser_omen(base)
    if g is None:
        fails.append(('omen-guesser', 'guesser cannot load the OMEN files'))
    else:
        if ''.join(g['alphabet']) != pi['alphabet'] or len(g['alphabet']) != len(pi['alphabet']):
            fails.append(('omen-guesser', 'alphabet read back as %d entries, %d written%s' % (len(g['alphabet']), len(pi['alphabet']), first_diff(g['alphabet'], list(pi['alphabet'])))))
        wip = {}
        wcp = {}
        wep = {}
        for ctx, d in tr.grammar.items():
            wip.setdefault(d['ip_level'], []).append(ctx)
            wep[ctx] = d['ep_level']
            for ch, lv in d['next_letter'].items():
                wcp.setdefault(ctx, {}).setdefault(lv[0], []).append(ch)
        gip = {l: v for l, v in g['ip'].items() if v}
        if gip != wip:
            fails.append(('omen-guesser', 'initial n-grams differ: %s' % dict_diff(gip, wip)))
        if g['ep'] != wep:
            fails.append(('omen-guesser', 'end n-grams differ: %s' % dict_diff(g['ep'], wep)))
        if g['cp'] != wcp:
            fails.append(('omen-guesser', 'transitions differ: %s' % dict_diff(g['cp'], wcp)))
    try:
        sc = O.load_scorer_omen(base, enc)
    except Exception as e:
        sc = None
        fails.append(('omen-scorer', 'scorer cannot load the OMEN files of a %s ruleset: %r' % (enc, e)))
    if sc is not None:
        sip = {ctx: d['ip_level'] for ctx, d in tr.grammar.items()}
        scp = {ctx + ch: lv[0] for ctx, d in tr.grammar.items() for ch, lv in d['next_letter'].items()}
        if sc.ip != sip:
            fails.append(('omen-scorer', 'scorer initial n-grams differ (%s ruleset): %s' % (enc, dict_diff(sc.ip, sip))))
        if sc.cp != scp:
            fails.append(('omen-scorer', 'scorer transitions differ (%s ruleset): %s' % (enc, dict_diff(sc.cp, scp))))
    # ---- terminal files: three readers
    try:
        gg = P.load_guesser(base)
    except Exception as e:
        gg = None
        fails.append(('load', 'guesser cannot load the trained ruleset: %r' % (e,)))
    sg = ScorerGrammar()
    sink = io.StringIO()
    why = ''
    with contextlib.redirect_stdout(sink), contextlib.redirect_stderr(sink):
        try:
            oks = tree.imp('lib_scorer.grammar_io').load_grammar(sg, base)
        except Exception as e:
            oks, why = False, ': %r' % (e,)
    if not oks:
        fails.append(('load', 'scorer cannot load the trained ruleset' + why))
    folders = {'Alpha': ('A', 'count_alpha'), 'Capitalization': ('C', 'count_alpha_masks'), 'Digits': ('D', 'count_digits'),
               'Other': ('O', 'count_other'), 'Keyboard': ('K', 'count_keyboard')}
    for folder, (k, attr) in folders.items():
        for fn in sorted(os.listdir(os.path.join(base, folder))):
            n = fn.split('.')[0]
            rows = P.read_list(os.path.join(base, folder, fn), enc)
            want = [v for v, _ in rows]
            if gg is not None:
                got = [v for grp in gg.grammar.get(k + n, []) for v in grp['values']]
                if got != want:
                    fails.append(('terminal-guesser', '%s/%s: guesser loader %d values, file has %d%s' % (folder, fn, len(got), len(want), first_diff(got, want))))
            if oks:
                got = list(getattr(sg, attr).get(int(n), {}))
                if got != want:
                    fails.append(('terminal-scorer', '%s/%s: scorer loader %d values, file has %d%s' % (folder, fn, len(got), len(want), first_diff(got, want))))
            # a length-indexed file holds values of exactly that length (a stray character glued to a value shows here even if all readers agree)
            bad = [v for v in want if len(v) != int(n)]
            if bad:
                fails.append(('terminal-length', '%s/%s holds %d value(s) whose length is not %s, e.g. %r (line %d of %d)' % (folder, fn, len(bad), n, bad[0], want.index(bad[0]) + 1, len(want))))
    # ---- the two flat terminal files (years, context-sensitive strings): same three readers
    for folder, k, attr in (('Years', 'Y1', 'count_years'), ('Context', 'X1', 'count_context_sensitive')):
        fpath = os.path.join(base, folder, '1.txt')
        if not os.path.exists(fpath):
            continue
        want = [v for v, _ in P.read_list(fpath, enc)]
        if gg is not None:
            got = [v for grp in gg.grammar.get(k, []) for v in grp['values']]
            if got != want:
                fails.append(('terminal-guesser', '%s/1.txt: guesser loader %d values, file has %d%s' % (folder, len(got), len(want), first_diff(got, want))))
        if oks:
            got = list(getattr(sg, attr))
            if got != want:
                fails.append(('terminal-scorer', '%s/1.txt: scorer loader %d values, file has %d%s' % (folder, len(got), len(want), first_diff(got, want))))
    # ---- the structure lists: every line of Grammar/grammar.txt is a structure of the guesser's grammar and of the scorer's, with the probability written
    for folder in ('Grammar', 'Prince'):
        rows = P.read_list(os.path.join(base, folder, 'grammar.txt'), 'ascii')
        try:
            want = [(v, float(pt)) for v, pt in rows]
        except ValueError:
            fails.append(('base-file', '%s/grammar.txt is not an ASCII list of structure <tab> probability (first row %r)' % (folder, rows[:1])))
            continue
        try:
            gb = gg if folder == 'Grammar' else P.load_guesser(base, folder='Prince')
        except Exception as e:
            gb = None
            fails.append(('load', 'guesser cannot load the ruleset with the %s structures: %r' % (folder, e)))
        if gb is not None:
            got = [(''.join(t for t in b['replacements'] if t[0] != 'C'), b['prob']) for b in gb.base]
            if [v for v, _ in got] != [v for v, _ in want]:
                fails.append(('base-guesser', '%s/grammar.txt: guesser loader has %d structures, the file %d%s' % (folder, len(got), len(want), first_diff([v for v, _ in got], [v for v, _ in want]))))
            elif any(abs(a - b) > 1e-15 * max(a, b) for (_, a), (_, b) in zip(got, want)):
                bad = next((x, y) for x, y in zip(got, want) if abs(x[1] - y[1]) > 1e-15 * max(x[1], y[1]))
                fails.append(('base-guesser', '%s/grammar.txt: structure %s has probability %r in the guesser, the file says %r' % (folder, bad[0][0], bad[0][1], bad[1][1])))
        if oks and folder == 'Grammar':
            got = list(sg.count_base_structures.items())
            if got != want:
                fails.append(('base-scorer', 'Grammar/grammar.txt: scorer loader has %d structures, the file %d%s' % (len(got), len(want), first_diff([v for v, _ in got], [v for v, _ in want]))))
    # ---- e-mail providers and website hosts (read by the guesser only: the E and W variables of PRINCE structures)
    for rel, k in ((('Emails', 'email_providers.txt'), 'E'), (('Websites', 'website_hosts.txt'), 'W')):
        fpath = os.path.join(base, *rel)
        if not os.path.exists(fpath) or gg is None:
            continue
        want = [v for v, _ in P.read_list(fpath, enc)]
        got = [v for grp in gg.grammar.get(k, []) for v in grp['values']]
        if got != want:
            fails.append(('terminal-guesser', '%s: guesser loader %d values %r, file has %d%s' % ('/'.join(rel), len(got), got[:6], len(want), first_diff(got, want))))
    # ---- config.ini names exactly the files that exist
    import configparser
    import json
    cfg = configparser.ConfigParser()
    try:
        # read the way every tool reads it: as platform text - this is the file that says which encoding the others are in
        cfg.read(os.path.join(base, 'config.ini'))
        cfg['BASE_A']['directory']
    except Exception as e:
        fails.append(('config', 'config.ini of the %s ruleset cannot be read as the tools read it (platform text): %r' % (enc, e)))
        return fails
    for sec in ('BASE_A', 'BASE_D', 'BASE_O', 'BASE_K', 'BASE_X', 'BASE_Y', 'CAPITALIZATION'):
        d = cfg[sec]['directory']
        names = sorted(json.loads(cfg[sec]['filenames']))
        have = sorted(os.listdir(os.path.join(base, d)))
        if names != have:
            fails.append(('config', 'config.ini lists %r for %s, directory holds %r' % (names[:5], d, have[:5])))
    return fails


def dict_diff(got, want):
    for k in want:
        if k not in got:
            return 'key %r missing' % (k,)
        if got[k] != want[k]:
            return 'key %r: read %r, written %r' % (k, got[k] if not isinstance(got[k], dict) else '...', want[k] if not isinstance(want[k], dict) else '...')
    for k in got:
        if k not in want:
            return 'unexpected key %r' % (k,)
    return 'order differs'


def run_omen(enc, cps, acc):
    m = get_mods()
    wd = tree.mkdtemp('pcfgmc-c07o-')
    batch = []

    def pw(ch):
        return 'x' + ch + 'yz'

    def flush():
        if not batch:
            return
        acc.evals += len(batch)
        acc.count('training_batches')
        lines = [pw(ch) for ch in batch]
        fails = compare_training(wd, lines, enc, acc, None)
        if fails:
            found = 0
            for ch in batch:
                f1 = compare_training(wd, [pw(ch), 'xqyz'], enc, acc, None)
                acc.evals += 1
                for sig, msg in f1[:2]:
                    found += 1
                    acc.fail({'layer': 'omen', 'encoding': enc, 'password': pw(ch), 'char': cp_name(ch)},
                             'training password %r (%s, %s): %s' % (pw(ch), cp_name(ch), enc, msg), sig + ':' + (cp_name(ch) if sig != 'omen-scorer' or enc == 'utf-8' else 'non-ascii-in-%s' % enc))
            if not found:
                sig, msg = fails[0]
                acc.fail({'layer': 'omen', 'encoding': enc, 'batch_first': cp_name(batch[0])}, 'batch starting at %s: %s' % (cp_name(batch[0]), msg), sig + ':batch')
        del batch[:]
    for cp in cps:
        ch = chr(cp)
        try:
            ch.encode(enc)
        except UnicodeEncodeError:
            continue
        if not m['check_valid'](pw(ch)):
            acc.count('rejected_by_check_valid')
            continue
        batch.append(ch)
        if not (ch.isascii() and ch.isalnum()):
            acc.nontrivial += 1
        if len(batch) >= TBATCH:
            flush()
    flush()
    tree.rmtree(wd)


def run_hexjunk(enc, acc):
    """Characters that the line format cannot carry, smuggled in through the $HEX[] notation of the training file: the reader must
    reject the decoded password (or whatever it accepts must still round-trip through every loader)."""
    tree.use()
    wd = tree.mkdtemp('pcfgmc-c07h-')
    danger = [chr(c) for c in list(range(0, 0x20)) + [0x85, 0x2028, 0x2029]]
    danger = [ch for ch in danger if can_encode(ch, enc)]
    base = [b'xqyz', b'xqyz', b'abcd1']

    def hexline(s):
        return b'$HEX[' + s.encode(enc).hex().encode('ascii') + b']'
    cases = [('x' + ch + 'yz') for ch in danger] + [ch + 'xyz' for ch in danger] + ['xyz' + ch for ch in danger] + ['']
    acc.evals += len(cases)
    acc.nontrivial += len(cases)
    data = b'\n'.join(base + [hexline(c) for c in cases]) + b'\n'
    fails = compare_training(wd, None, enc, acc, None, raw_bytes=data)
    clean = None
    if not fails:
        # the smuggled lines must also leave the ruleset exactly as the clean list does
        ok, b1, _, _ = P.train(wd, None, rule='hj', raw_bytes=data, encoding=enc, ngram=2, alphabet_size=100000, coverage=0.5)
        ok2, b2, _, _ = P.train(wd, None, rule='hc', raw_bytes=b'\n'.join(base) + b'\n', encoding=enc, ngram=2, alphabet_size=100000, coverage=0.5)
        t1, t2 = P.tree_bytes(b1), P.tree_bytes(b2)
        for t in (t1, t2):
            t['config.ini'] = b'\n'.join(l for l in t['config.ini'].split(b'\n') if not l.startswith(b'number_of_encoding_errors'))
        if t1 != t2:
            fails.append(('hexjunk-leak', 'ruleset differs from the one trained without the $HEX lines in %r' % sorted(k for k in set(t1) | set(t2) if t1.get(k) != t2.get(k))[:4]))
    if fails:
        found = 0
        for c in cases:
            d1 = b'\n'.join(base + [hexline(c)]) + b'\n'
            f1 = compare_training(wd, None, enc, acc, None, raw_bytes=d1)
            acc.evals += 1
            if not f1:
                ok, b1, _, _ = P.train(wd, None, rule='hj', raw_bytes=d1, encoding=enc, ngram=2, alphabet_size=100000, coverage=0.5)
                ok2, b2, _, _ = P.train(wd, None, rule='hc', raw_bytes=b'\n'.join(base) + b'\n', encoding=enc, ngram=2, alphabet_size=100000, coverage=0.5)
                t1, t2 = P.tree_bytes(b1), P.tree_bytes(b2)
                for t in (t1, t2):
                    t['config.ini'] = b'\n'.join(l for l in t['config.ini'].split(b'\n') if not l.startswith(b'number_of_encoding_errors'))
                if t1 != t2:
                    f1 = [('hexjunk-leak', 'the decoded password leaves a trace in %r' % sorted(k for k in set(t1) | set(t2) if t1.get(k) != t2.get(k))[:3])]
            for sig, msg in f1[:1]:
                found += 1
                acc.fail({'layer': 'hexjunk', 'encoding': enc, 'decoded_password': c},
                         'training line %r (decodes to %r, %s): %s' % (hexline(c).decode('ascii'), c, enc, msg), 'hexjunk:' + sig)
        if not found:
            acc.fail({'layer': 'hexjunk', 'encoding': enc}, 'batch of $HEX lines: %s' % fails[0][1], 'hexjunk:batch')
    acc.sample({'layer': 'hexjunk', 'encoding': enc, 'lines': [hexline(c).decode('ascii') for c in cases[:4]]}, cap=1)
    tree.rmtree(wd)


def can_encode(ch, enc):
    try:
        ch.encode(enc)
        return True
    except UnicodeEncodeError:
        return False


# training lists that differ in which categories (and which lengths inside a category) they fill: a rule name that is trained again must not
# keep anything of the earlier ruleset that its new config does not name
RETRAIN_POOL = [['password', 'monkey'], ['abc123', 'pass!!', '1qaz2wsx', 'x1'], ['abcd1', '7!'], ['Pass2019', '#1love', 'bob@hotmail.com', 'go2www.site.com'], ['1234567', '!!!!']]


def run_retrain(enc, tier, acc):
    depth = 3 if tier == 'thorough' else 2
    for hist in itertools.product(range(len(RETRAIN_POOL)), repeat=depth):
        # --save_sensitive additionally keeps full e-mail addresses / URLs in the ruleset: the readers' view must not depend on it
        for sens in (False, True):
            wd = tree.mkdtemp('pcfgmc-c07r-')
            for step, li in enumerate(hist):
                acc.evals += 1
                if step > 0 and hist[step - 1] != li:
                    acc.nontrivial += 1
                case = {'layer': 'retrain', 'encoding': enc, 'history': list(hist[:step + 1]), 'save_sensitive': sens}
                for sig, msg in compare_training(wd, RETRAIN_POOL[li], enc, acc, case, keep_existing=step > 0, save_sensitive=sens):
                    acc.fail(case, 'rule name trained%s with lists %r in turn: after training %d: %s'
                             % (' (--save_sensitive)' if sens else '', [RETRAIN_POOL[i] for i in hist[:step + 1]], step + 1, msg), 'retrain-' + sig)
            tree.rmtree(wd)
    acc.sample({'layer': 'retrain', 'pool': RETRAIN_POOL, 'history_length': depth}, cap=1)


# years are 19xx / 20xx with any two characters that str.isdigit() accepts (Arabic-Indic, superscript, fullwidth digits); context strings are a fixed list
FLAT_LISTS = [['love2019', 'pass20\u0661\u0669', 'x20\u00b2\u00b34', '#1abc', 'i<3you', '1999x', 'love2019', 'ab19\uff11\uff12'],
              ['pass20\u00b2\u00b3', 'love1999', '#1x', 'caf\u00e92010', ';pabc'], ['1999', '2010', 'abc#1', 'no.1x'],
              # e-mail providers and website hosts
              ['bob@gmail.com', 'amy@gmail.com', 'x@aol.com', 'www.site.com', 'site.com', 'http://foo.org', 'caf\u00e9@web.de', 'love2019', 'x.net1'],
              ['a@b.com', 'password1'], ['www.site.org', 'password1']]


def run_flat(tier, acc):
    wd = tree.mkdtemp('pcfgmc-c07f-')
    for li, lines in enumerate(FLAT_LISTS):
        for enc in ('utf-8', 'utf-16', 'latin-1', 'cp1252', 'utf-32', 'utf-8-sig'):
            if not all(can_encode(ch, enc) for l in lines for ch in l):
                continue
            acc.evals += 1
            acc.nontrivial += 1
            case = {'layer': 'flat', 'encoding': enc, 'list': li}
            for sig, msg in compare_training(wd, lines, enc, acc, case):
                acc.fail(case, 'list %r as a %s ruleset: %s' % (lines, enc, msg), 'flat-' + sig)
    tree.rmtree(wd)


def run_probs(acc):
    """Files whose neighbouring records have probabilities that are almost equal (next double, 1e-13 and 1e-16 apart, relative and absolute, down to
    1e-300): both readers give every value back with exactly the probability written next to it."""
    import math
    m = get_mods()
    root = tree.mkdtemp('pcfgmc-c07p-')
    path = os.path.join(root, 'p.txt')
    cols = []
    for base in (0.25, 0.1, 1e-5, 1.8168166804278433e-12, 3e-17, 1e-300):
        nxt = math.nextafter(base, 0.0)
        cols.append([base, nxt, math.nextafter(nxt, 0.0)])
        cols.append([base, base * (1 - 1e-13), base * (1 - 2e-13)])
        cols.append([base, base * (1 - 1e-10), base * (1 - 1e-9), base * (1 - 1e-6)])
        cols.append([base, base, nxt, nxt])
    cols.append([1.8168166804278433e-12, 1.5182176690791375e-12, 1.3951419119931426e-12, 1e-13, 9e-14])      # what a large list gives the OMEN levels
    cols.append([5e-13, 4e-13, 3e-13, 0.0, 0.0])
    for ci, col in enumerate(cols):
        for enc in ('utf-8', 'utf-16'):
            acc.evals += 1
            acc.nontrivial += 1
            rows = [('v%d' % i, p) for i, p in enumerate(col)]
            with codecs.open(path, 'w', encoding=enc) as f:
                for v, p in rows:
                    f.write('%s\t%s\n' % (v, repr(p)))
            sec, sc = [], {}
            sink = io.StringIO()
            with contextlib.redirect_stdout(sink), contextlib.redirect_stderr(sink):
                okg = m['gload'](sec, path, enc)
                oks = m['sload'](sc, path, enc)
            case = {'layer': 'probs', 'column': [repr(p) for p in col], 'encoding': enc}
            got_g = [(v, grp['prob']) for grp in sec for v in grp['values']]
            if not okg or got_g != rows:
                bad = next((a for a, b in zip(got_g, rows) if a != b), None)
                acc.fail(case, 'guesser loader: file holds %r, read back %r%s' % ([(v, repr(p)) for v, p in rows], [(v, repr(p)) for v, p in got_g],
                                                                                  '' if bad is None else ' (first difference: %r)' % (bad,)), 'probs-guesser')
            got_s = list(sc.items())
            if not oks or got_s != rows:
                acc.fail(case, 'scorer loader: file holds %r, read back %r' % ([(v, repr(p)) for v, p in rows], [(v, repr(p)) for v, p in got_s]), 'probs-scorer')
    tree.rmtree(root)


def run_bigfile(enc, tier, acc):
    nums = [str(x) for x in range(300000, 360000) if '19' not in str(x) and '20' not in str(x)][:12496 if tier == 'quick' else 24996]      # with the four passwords below 12 500 / 25 000 lines: at coverage 0.5 a structure seen once has probability 4e-05 / 2e-05, which Python writes without a decimal point
    lines = nums + ['password', 'Password1', 'x yz', 'caf\u00e9']
    wd = tree.mkdtemp('pcfgmc-c07b-')
    acc.evals += 1
    acc.nontrivial += 1
    case = {'layer': 'bigfile', 'encoding': enc, 'values': len(nums)}
    for sig, msg in compare_training(wd, lines, enc, acc, case):
        acc.fail(case, 'training list with %d distinct six-digit strings, encoding %s: %s' % (len(nums), enc, msg), 'bigfile-' + sig)
    tree.rmtree(wd)


LOCALE_SCRIPT = r'''
import sys, json, hashlib
sys.path.insert(0, %r)
from pcfgmc import tree, pipeline as P
from pcfgmc.props import c07
from pcfgmc.runner import Acc
tree.use()
wd = tree.mkdtemp('pcfgmc-c07l-')
out = {}
for enc, lines in (('utf-8', ['\u043f\u0430\u0440\u043e\u043b\u044c1', 'caf\u00e912', 'x yz', '\U0001F600ok']), ('cp1251', ['\u043f\u0430\u0440\u043e\u043b\u044c1', 'password']),
                   ('latin-1', ['caf\u00e912', 'na\u00efve']), ('utf-16', ['\u043f\u0430\u0440\u043e\u043b\u044c1', 'caf\u00e9'])):
    fails = c07.compare_training(wd, lines, enc, Acc(), None)
    out[enc] = [m[:200] for _, m in fails]
    ok, base, o, pi = P.train(wd, lines, rule='t', encoding=enc)
    out[enc + ' ruleset'] = hashlib.sha1(repr(sorted(P.tree_bytes(base).items())).encode()).hexdigest() if ok is True else repr(ok)
tree.rmtree(wd)
sys.stdout.write(json.dumps(out, ensure_ascii=True))
'''


def run_locale(tier, acc):
    """The locale of the process (the default text encoding of open()) is no part of a ruleset's meaning: training and loading non-ASCII rulesets
    in a process with a UTF-8 locale and in one with the POSIX locale (ASCII) give the same files and the same reader results."""
    import json
    import subprocess
    import sys
    verif = os.path.dirname(os.path.dirname(os.path.dirname(os.path.abspath(__file__))))
    outs = {}
    for name, env in (('C.UTF-8', {'LC_ALL': 'C.UTF-8', 'LANG': 'C.UTF-8'}), ('POSIX', {'LC_ALL': 'POSIX', 'LANG': 'POSIX', 'PYTHONCOERCECLOCALE': '0', 'PYTHONUTF8': '0'})):
        e = dict(os.environ)
        e.pop('PYTHONUTF8', None)
        e.update(env)
        r = subprocess.run([sys.executable, '-B', '-c', LOCALE_SCRIPT % verif], env=e, capture_output=True, text=True, timeout=600)
        acc.evals += 1
        acc.nontrivial += 1
        try:
            outs[name] = json.loads(r.stdout)
        except Exception:
            acc.fail({'layer': 'locale', 'locale': name}, 'training / loading in a process with locale %s failed: %s' % (name, (r.stderr or r.stdout).strip().splitlines()[-1:]), 'locale-raise')
            return
        for k, v in outs[name].items():
            if isinstance(v, list) and v:
                acc.fail({'layer': 'locale', 'locale': name, 'encoding': k}, 'locale %s, %s ruleset: %s' % (name, k, v[0]), 'locale-' + name)
    if len(outs) == 2 and outs['C.UTF-8'] != outs['POSIX']:
        diff = [k for k in outs['POSIX'] if outs['POSIX'][k] != outs['C.UTF-8'].get(k)]
        acc.fail({'layer': 'locale'}, 'the rulesets trained under the POSIX locale differ from those trained under a UTF-8 locale: %r' % diff[:4], 'locale-differs')


def run_shard(shard, tier, acc):
    kind = shard[0]
    if kind == 'locale':
        return run_locale(tier, acc)
    if kind == 'bigfile':
        return run_bigfile(shard[1], tier, acc)
    if kind == 'flat':
        return run_flat(tier, acc)
    if kind == 'probs':
        return run_probs(acc)
    if kind == 'hexjunk':
        return run_hexjunk(shard[1], acc)
    if kind == 'retrain':
        return run_retrain(shard[1], tier, acc)
    if kind in ('term', 'term_special', 'term8'):
        m = get_mods()
        root = tree.mkdtemp('pcfgmc-c07-')
        if kind == 'term':
            _, enc, lo, hi, mode = shard
            cps = [cp for cp in range(max(lo, 0x20), hi) if not 0xD800 <= cp <= 0xDFFF]
            run_terminal(m, enc, cps, mode, acc, root)
            if lo == 0:
                acc.sample({'layer': 'terminal', 'encoding': enc, 'values': positions('é') + positions(' ')}, cap=1)
        elif kind == 'term_special':
            run_terminal(m, shard[1], special_cps(), 'all3', acc, root)
            # position inside the file: each special value also as the FIRST line of a file of its own (start-of-file handling, byte order marks)
            path = os.path.join(root, 'first.txt')
            for cp in special_cps():
                ch = chr(cp)
                if not can_encode(ch, shard[1]):
                    continue
                for v in positions(ch):
                    if not m['check_valid'](v):
                        continue
                    acc.evals += 1
                    mm = roundtrip(m, path, [v, 'zz'], shard[1])
                    if mm:
                        acc.fail({'layer': 'terminal', 'encoding': shard[1], 'value': v, 'char': cp_name(ch), 'first_in_file': True},
                                 'terminal value %r (%s, encoding %s) as the first line of a file does not come back unchanged: %s' % (v, cp_name(ch), shard[1], mm),
                                 'terminal-first:' + cp_name(ch))
        else:
            enc = shard[1]
            cps = sorted(set(ord(bytes([b]).decode(enc)) for b in range(0x20, 0x100) if can_decode(b, enc)))
            run_terminal(m, enc, cps, 'all3', acc, root)
        tree.rmtree(root)
    elif kind == 'omen':
        _, enc, lo, hi = shard
        run_omen(enc, [cp for cp in range(max(lo, 0x20), hi) if not 0xD800 <= cp <= 0xDFFF], acc)
        if lo <= 0x20:
            acc.sample({'layer': 'omen', 'encoding': enc, 'passwords': ['xéyz', 'x yz', 'x yz']}, cap=1)
    elif kind == 'omen_list':
        run_omen(shard[1], shard[2], acc)
    elif kind == 'omen8':
        enc = shard[1]
        cps = sorted(set(ord(bytes([b]).decode(enc)) for b in range(0x20, 0x100) if can_decode(b, enc)))
        run_omen(enc, cps, acc)


def can_decode(b, enc):
    try:
        bytes([b]).decode(enc)
        return True
    except UnicodeDecodeError:
        return False


def replay(case):
    from ..runner import Acc
    acc = Acc()
    if case['layer'] == 'terminal':
        m = get_mods()
        root = tree.mkdtemp('pcfgmc-c07r-')
        msg = roundtrip(m, os.path.join(root, 'f.txt'), ['aa', case['value'], 'zz'], case['encoding']) if 'value' in case else None
        tree.rmtree(root)
        return msg
    tree.use()
    wd = tree.mkdtemp('pcfgmc-c07r-')
    if case['layer'] == 'locale':
        run_locale('quick', acc)
        return acc.failures[0]['msg'] if acc.failures else None
    if case['layer'] == 'bigfile':
        run_bigfile(case['encoding'], 'quick', acc)
        tree.rmtree(wd)
        return acc.failures[0]['msg'] if acc.failures else None
    if case['layer'] == 'probs':
        run_probs(acc)
        fs = [f for f in acc.failures if f['case'] == case]
        tree.rmtree(wd)
        return fs[0]['msg'] if fs else None
    if case['layer'] == 'flat':
        fails = compare_training(wd, FLAT_LISTS[case['list']], case['encoding'], acc, None)
        tree.rmtree(wd)
        return fails[0][1] if fails else None
    if case['layer'] == 'retrain':
        fails = []
        for step, li in enumerate(case['history']):
            fails = compare_training(wd, RETRAIN_POOL[li], case['encoding'], acc, None, keep_existing=step > 0, save_sensitive=case.get('save_sensitive', False))
        tree.rmtree(wd)
        return fails[0][1] if fails else None
    fails = compare_training(wd, [case['password'], 'xqyz'], case['encoding'], acc, None) if 'password' in case else []
    tree.rmtree(wd)
    return fails[0][1] if fails else None
