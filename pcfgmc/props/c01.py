"""C01 — non-increasing probability order, reported probability = product, determinism."""
from . import queue_common as Q
from . import queue_disk as D

ID = 'C01'
LEVEL = 'model_checking'
ORACLES = ('C01',)
RULE = ('every ruleset of the finite families in coverage.bounds is run to exhaustion through the real '
        'PcfgQueue; a state is (emitted multiset, heap content) after a pop, a transition is one next(); '
        'non-trivial = ruleset with two pre-terminals of exactly equal probability or a repeated variable type; '
        'on-disk layer: rulesets written to disk, loaded by the real loader under every flag combination; there the terminals of every emitted group are compared with the ruleset as well (the probability attached to every guess)')
ASSUMPTIONS = [
    'in-memory grammars are deep copies of a PcfgGrammar really constructed from a minimal on-disk ruleset, with .grammar/.base replaced: they behave like loaded ones for PcfgQueue (the on-disk layer goes through the real loader)',
    'float slack for "equals the product": (2n+2) ulp relative + n denormal steps (DESIGN 4.3)',
    'heap inspection reads PcfgQueue.p_queue when present; otherwise only the emitted sequence is checked',
]


def shards(tier):
    return [('mem', s) for s in Q.shards(tier)] + [('disk', s) for s in D.shards(tier)] + [('hashseed', 0)]


def bounds(tier):
    b = Q.bounds(tier)
    b['disk'] = D.bounds(tier)
    return b


def run_shard(shard, tier, acc):
    kind, s = shard
    if kind == 'mem':
        Q.run_shard(s, tier, acc, 'C01')
    elif kind == 'disk':
        D.run_shard(s, tier, acc, 'C01')
    else:
        D.run_hashseed(tier, acc)


def replay(case):
    if case.get('kind') == 'hashseed':
        from ..runner import Acc
        acc = Acc()
        D.run_hashseed('quick', acc)
        return acc.failures[0]['msg'] if acc.failures else None
    if case.get('kind') == 'disk':
        return D.replay(case, 'C01')
    return Q.replay(case, 'C01')
