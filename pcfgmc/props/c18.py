"""C18 — the saved OMEN keyspace is the number of guesses a level really produces."""
import os
from collections import Counter

from .. import tree
from .. import pipeline as P
from . import omen_common as O
from . import c11

ID = 'C18'
LEVEL = 'exploration'
RULE = ('bounded-exhaustive over the training lists of C11 plus lists dominated by passwords whose length equals the n-gram size or by a single length (length cost 0), x n-gram x alphabet size: '
        'for every level listed in omen_keyspace.txt the value must equal the number of distinct strings the loaded guesser grammar generates at that level (dynamic-programming count on the loaded grammar, '
        'and the real MarkovCracker output for every level with <= 600 (quick) / 50000 (thorough) strings), and the value in pcfg_omen_prob.txt must be (training passwords at the level / N) / keyspace; '
        'non-trivial = listed level with keyspace >= 2')
ASSUMPTIONS = ['levels whose generator output exceeds the cap are compared with the reference count only (reported in counters)',
               'the early return of calc_omen_keyspace at 10^10 strings is out of reach of the bounded lists']
NSHARDS = 96
EXTRA = [['ab'] * 3, ['ab', 'ba', 'aa'], ['abab'] * 4, ['abab', 'baba', 'abba'], ['aab', 'aba', 'abb'], ['aaa'] * 2 + ['aaaa'], ['ab1', 'ab1', 'a1b'],
         ['abab', 'ab'], ['aaaaa'] * 3, ['abab1', 'babab'],
         # a context with seven equally likely followers has no level-0 transition; it is reached at two different prices (after m: level 0, after n: level 1)
         ['mx' + c + d for c in 'abcdefg' for d in '12'] + ['nx' + c + '1' for c in 'abcdefg'] + ['nana'] * 25]


def trainings(tier):
    for l, o in c11.trainings(tier):
        yield l, o
    ngrams = [2, 3, 4, 5] if tier == 'thorough' else [2, 3, 4]
    for l in EXTRA:
        for ng in ngrams:
            for al in (2, 3, 10):
                yield l, dict(ngram=ng, alphabet_size=al, coverage=0.5)
    for ng in (2, 3):
        yield EXTRA[-1], dict(ngram=ng, alphabet_size=100, coverage=0.5)      # the fan-out list needs its whole alphabet


def shards(tier):
    return [('t', i, NSHARDS) for i in range(NSHARDS)]


def bounds(tier):
    b = c11.bounds(tier)
    b['extra_lists'] = EXTRA
    b['capped_transition_lists'] = [[(w, n) for w, n in sorted(Counter(l).items())] for l in c11.CAPPED]
    b['generator_levels'] = '<= 8 (quick) / <= 12 (thorough); above that the reference count on the loaded grammar only'
    b['generator_cap_per_level'] = 600 if tier == 'quick' else 50000
    return b


def check_training(wd, lines, opts, acc, gcap=50000, gmaxlevel=18):
    ok, base, out, pi, cap = O.train_capture(wd, lines, **opts)
    if ok is not True or 'trainer' not in cap:
        return None
    fails = []
    g = O.load_guesser_omen(base)
    if g is None:
        return [('load', 'guesser cannot load the OMEN files')]
    gm = O.GuesserModel(g)
    rows = P.read_list(os.path.join(base, 'Omen', 'omen_keyspace.txt'))
    ks = {int(v): int(p) for v, p in rows}
    ref = gm.count_per_level(max(ks) if ks else 0)
    shared = O.new_optimizer()      # one optimizer for all the levels of a ruleset, generated in ascending order: the way a guessing session uses it
    for L in sorted(ks):
        want = ref.get(L, 0)
        if ks[L] >= 2:
            acc.nontrivial += 1
        if want <= gcap and L <= gmaxlevel:
            try:
                outl, capped = O.emitted_at(g, L, cap=gcap + 1, optimizer=shared)
            except Exception as e:
                fails.append(('generator', 'MarkovCracker cannot be started at level %d: %r' % (L, e)))
                break
            if not capped:
                if len(set(outl)) != want or len(outl) != want:
                    fails.append(('reference', 'level %d: MarkovCracker emits %d strings (%d distinct), reference count on the loaded grammar is %d' % (L, len(outl), len(set(outl)), want)))
                    break
                acc.count('levels_checked_against_real_generator')
        else:
            acc.count('levels_checked_against_reference_count_only')
        if ks[L] != want:
            lens = Counter(len(s) for s in lines)
            fails.append(('keyspace', 'level %d: omen_keyspace.txt says %d, the guesser generates %d strings (n-gram %d, training lengths %r)' % (L, ks[L], want, opts['ngram'], dict(lens))))
            break
    # saved probability of a level
    prow = P.read_list(os.path.join(base, 'Omen', 'pcfg_omen_prob.txt'))
    N = len(lines)
    at = Counter()
    for s in lines:
        gl = gm.levels_of(s)
        at[gl[0] if len(gl) == 1 else -1] += 1
    for v, p in prow:
        L = int(v)
        if L not in ks or ks[L] == 0:
            fails.append(('prob', 'pcfg_omen_prob.txt lists level %d which has no keyspace' % L))
            break
        want = (at.get(L, 0) / N) / ks[L]
        if abs(float(p) - want) > 1e-15 + 1e-12 * want:
            fails.append(('prob', 'level %d: saved probability %s, expected (%d/%d)/%d = %r' % (L, p, at.get(L, 0), N, ks[L], want)))
            break
    missing = [L for L in ks if ks[L] != 0 and L not in {int(v) for v, _ in prow}]
    if missing:
        fails.append(('prob', 'levels %r have a keyspace but no saved probability' % missing[:4]))
    return fails


def run_shard(shard, tier, acc):
    _, si, ns = shard
    tree.use()
    wd = tree.mkdtemp('pcfgmc-c18-')
    for idx, (lines, opts) in enumerate(trainings(tier)):
        if idx % ns != si:
            continue
        acc.evals += 1
        fails = check_training(wd, lines, opts, acc, gcap=600 if tier == 'quick' else 50000, gmaxlevel=8 if tier == 'quick' else 12)
        if fails is None:
            acc.count('training_did_not_complete')
            continue
        for sig, msg in fails[:3]:
            acc.fail({'runs': c11.rle(lines), 'opts': opts}, '%r ngram=%d alphabet=%d: %s' % ([(w[:8], n) if n > 1 else w[:8] for w, n in c11.rle(lines)][:12], opts['ngram'], opts['alphabet_size'], msg), sig)
        if idx % 211 == si:
            acc.sample({'training_list_runs': [[w[:24], n] for w, n in c11.rle(lines)][:12], 'opts': opts}, cap=1)
    tree.rmtree(wd)


def replay(case):
    from ..runner import Acc
    tree.use()
    wd = tree.mkdtemp('pcfgmc-c18r-')
    fails = check_training(wd, c11.unrle(case['runs']) if 'runs' in case else case['lines'], case['opts'], Acc())
    tree.rmtree(wd)
    return fails[0][1] if fails else None
