"""Library pipeline driver (DESIGN 4.1 seam 3): run the real trainer on a training list, load the
result with the real guesser loader, generate the non-Markov language with the real queue."""
import contextlib
import io
import os
import shutil
from collections import Counter

from . import tree

DEFAULT_ALPHABET = 'abcdefghijklmnopqrstuvwxyzABCDEFGHIJKLMNOPQRSTUVWXYZ0123456789!.*@-_$#<?'


def program_info(training_file, encoding='utf-8', coverage=0.6, ngram=4, alphabet_size=100, prefixcount=False,
                 multiword=False, save_sensitive=False, rule_name='v'):
    return {
        'name': 'PCFG Trainer', 'version': '4.7', 'author': 'Matt Weir', 'contact': 'cweir@vt.edu',
        'rule_name': rule_name, 'training_file': training_file, 'encoding': encoding, 'comments': '',
        'save_sensitive': save_sensitive, 'prefixcount': prefixcount, 'ngram': ngram,
        'alphabet_size': alphabet_size, 'alphabet': DEFAULT_ALPHABET, 'smoothing': 0.01,
        'coverage': coverage, 'max_len': 21, 'multiword': multiword,
    }


def write_training(path, lines, encoding='utf-8', newline='\n'):
    """lines: list of str (encoded with `encoding`) or bytes (written verbatim)."""
    if all(isinstance(l, str) for l in lines):
        # encode the text as a whole (a 16-bit encoding must not get a BOM per line / an 8-bit line feed)
        with open(path, 'wb') as f:
            f.write(''.join(l + newline for l in lines).encode(encoding, errors='surrogateescape'))
        return
    with open(path, 'wb') as f:
        for l in lines:
            if isinstance(l, bytes):
                f.write(l)
            else:
                f.write(l.encode(encoding, errors='surrogateescape'))
            f.write(newline.encode('ascii'))


def counted_form(lines):
    seen = {}
    for pw in lines:
        seen[pw] = seen.get(pw, 0) + 1
    return list(seen.items())


def train(workdir, lines, rule='v', newline='\n', raw_bytes=None, keep_existing=False, **opts):
    """Returns (ok, base_directory, captured_stdout, program_info).  ok is run_trainer's return value."""
    tree.imp('lib_trainer.run_trainer')
    import sys
    rt = sys.modules['lib_trainer.run_trainer']
    tfo = tree.imp('lib_trainer.trainer_file_output')
    tf = os.path.join(workdir, 'train_%s.txt' % rule)
    enc = opts.get('encoding', 'utf-8')
    if raw_bytes is not None:
        with open(tf, 'wb') as f:
            f.write(raw_bytes)
    elif opts.get('counted'):
        # the list as `sort | uniq -c` prints it (trainer.py --prefixcount): one line per distinct password, count right-aligned in 7 columns
        write_training(tf, ['%7d %s' % (n, pw) for pw, n in counted_form(lines)], enc, newline)
    else:
        write_training(tf, lines, enc, newline)
    base = os.path.join(workdir, 'Rules', rule)
    if os.path.isdir(base) and not keep_existing:
        shutil.rmtree(base)
    opts = dict(opts)
    if opts.pop('counted', None):
        opts['prefixcount'] = True
    mw = opts.pop('multiword_words', None)
    if mw:
        # trainer.py --multiword FILE: words that pre-train the multi-word detector
        mwf = os.path.join(workdir, 'multiword_%s.txt' % rule)
        write_training(mwf, list(mw), enc, '\n')
        opts['multiword'] = mwf
    pi = program_info(tf, **opts)
    pi['rule_name'] = rule
    out = io.StringIO()
    with contextlib.redirect_stdout(out), contextlib.redirect_stderr(out):
        ok = tfo.create_rule_folders(base)
        if ok:
            try:
                ok = rt.run_trainer(pi, base)
            except Exception as e:   # a crash of the trainer is an observation, not a harness error
                import traceback
                out.write('EXCEPTION ' + traceback.format_exc())
                ok = 'raised %r' % (e,)
    return ok, base, out.getvalue(), pi


def load_guesser(base, skip_brute=False, skip_case=False, folder='Grammar'):
    G = tree.imp('lib_guesser.pcfg_grammar').PcfgGrammar
    out = io.StringIO()
    with contextlib.redirect_stdout(out), contextlib.redirect_stderr(out):
        g = G('v', base, '4.7', None, skip_brute=skip_brute, skip_case=skip_case, base_structure_folder=folder)
    return g


def generate(g, cap_pts=200000, cap_guesses=2000000, skip_markov=False):
    """Full PcfgQueue run; returns (list of (pt, prob, [guesses]), capped)."""
    Q = tree.imp('lib_guesser.priority_queue').PcfgQueue
    q = Q(g)
    res = []
    total = 0
    lines = []
    g.print_guess = lines.append
    while True:
        it = q.next()
        if it is None:
            return res, False
        if skip_markov and it['pt'][0][0][0] == 'M':
            continue
        del lines[:]
        n = g.create_guesses(it['pt'])
        res.append((tuple(tuple(x) for x in it['pt']), it['prob'], list(lines), n))
        total += len(lines)
        if len(res) > cap_pts or total > cap_guesses:
            return res, True


def read_list(path, encoding='utf-8'):
    """Independent reader of a value<TAB>prob file: splits on LF only, keeps everything else."""
    with open(path, 'rb') as f:
        data = f.read()
    rows = []
    if not data:
        return rows
    try:
        text = data.decode(encoding, errors='surrogateescape')
    except UnicodeError as e:
        # the file is not text in the encoding it is supposed to be in: a finding of whoever compares it with something, not a crash of the reader
        return [('<%s is not text in %s: %s>' % (os.path.basename(path), encoding, e), 'nan')]
    parts = text.split('\n')
    if parts and parts[-1] == '':
        parts.pop()
    for line in parts:
        v, _, p = line.rpartition('\t')
        rows.append((v, p))
    return rows


def tree_bytes(base, mask_uuid=True):
    """{relative path: bytes} of a ruleset directory (uuid line and training file name masked)."""
    out = {}
    for root, dirs, files in os.walk(base):
        dirs.sort()
        for fn in sorted(files):
            p = os.path.join(root, fn)
            with open(p, 'rb') as f:
                b = f.read()
            rel = os.path.relpath(p, base)
            if mask_uuid and rel == 'config.ini':
                b = b'\n'.join(l for l in b.split(b'\n') if not l.startswith(b'uuid = ') and not l.startswith(b'filename = '))
            out[rel] = b
    return out
