"""Locating and importing the tree under test.

The tree under test is /repo (override: PCFG_VERIF_REPO).  Nothing is ever written into it:
byte-code writing is disabled and every CLI-level experiment runs in a scratch copy made by
`scratch_tree()` (the CLIs resolve Rules/ and *.sav relative to their own file).
"""
import atexit
import importlib
import os
import shutil
import sys
import tempfile

REPO = os.path.realpath(os.environ.get('PCFG_VERIF_REPO', '/repo'))

TOP_MODULES = ('lib_guesser', 'lib_trainer', 'lib_scorer', 'lib_princeling',
               'pcfg_guesser', 'trainer', 'password_scorer', 'prince_ling', 'edit_rules')

sys.dont_write_bytecode = True
import warnings
warnings.simplefilter("ignore", SyntaxWarning)


def _is_tree_module(name):
    head = name.split('.', 1)[0]
    return head in TOP_MODULES


def purge():
    """Forget every module of the tree: the next import behaves like a fresh process."""
    for name in [n for n in sys.modules if _is_tree_module(n)]:
        del sys.modules[name]


def use(root=None):
    """Make `root` (default: the tree under test) the place tree modules are imported from."""
    root = root or REPO
    purge()
    sys.path[:] = [p for p in sys.path if p not in _roots]
    _roots.clear()
    _roots.add(root)
    sys.path.insert(0, root)
    importlib.invalidate_caches()
    return root


_roots = set()


def imp(name, root=None):
    """Import a module of the tree (after `use`)."""
    if not _roots:
        use(root)
    return importlib.import_module(name)


_scratch_dirs = []


def _cleanup():
    for d in _scratch_dirs:
        shutil.rmtree(d, ignore_errors=True)


atexit.register(_cleanup)


def tmp_root():
    base = os.environ.get('PCFG_VERIF_TMP')
    if not base:
        base = '/dev/shm' if os.path.isdir('/dev/shm') and os.access('/dev/shm', os.W_OK) else tempfile.gettempdir()
    return base


def mkdtemp(prefix='pcfgmc-'):
    d = tempfile.mkdtemp(prefix=prefix, dir=tmp_root())
    _scratch_dirs.append(d)
    return d


def rmtree(d):
    shutil.rmtree(d, ignore_errors=True)
    if d in _scratch_dirs:
        _scratch_dirs.remove(d)


def scratch_tree(with_rules=()):
    """Copy the python sources of the tree under test (no .git, no docs, no Rules unless named)
    into a fresh scratch directory and return its path.  The copy is removed at exit."""
    dst = mkdtemp('pcfgmc-tree-')
    for name in os.listdir(REPO):
        src = os.path.join(REPO, name)
        if name in ('.git', 'docs', 'Rules', '__pycache__') or name.endswith('.sav') or name.endswith('.omn'):
            continue
        if os.path.isdir(src):
            shutil.copytree(src, os.path.join(dst, name),
                            ignore=shutil.ignore_patterns('__pycache__', 'unit_tests', 'future_research'))
        elif name.endswith('.py'):
            shutil.copy2(src, os.path.join(dst, name))
    os.makedirs(os.path.join(dst, 'Rules'), exist_ok=True)
    # the copy is ours: byte-compile it once so that every "fresh process" import is cheap
    import compileall
    compileall.compile_dir(dst, quiet=2, workers=1)
    for r in with_rules:
        shutil.copytree(os.path.join(REPO, 'Rules', r), os.path.join(dst, 'Rules', r))
    return dst
