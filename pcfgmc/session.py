"""In-process session driver (DESIGN 4.1 seam 4).

Runs pcfg_guesser.main() of a scratch copy of the tree under test inside the worker, as a
"fresh process" (module cache purged), with
  * sys.argv patched, stdout/stderr captured,
  * the keyboard thread replaced by a *virtual user*: a stand-in Thread object that never runs
    keypress(); instead the driver fires "the user typed q and the thread finished" at a chosen
    moment = after the j-th printed guess (j = 0: before the first).  This is the sequential
    schedule in which the thread reacts promptly; all other schedules are C12's subject
    (pcfgmc.sched).
Everything observable is returned in a Run object: stdout lines, pre-terminal events,
the .sav (canonicalised) and .omn bytes.
"""
import configparser
import contextlib
import io
import os
import sys

from . import tree


class Capture(io.TextIOWrapper):
    """Stand-in for the process's standard output / error: a real text stream over a byte buffer, so that everything a program may do with
    sys.stdout (reconfigure(), .buffer, .encoding, errors) is there.  UTF-8 with strict errors, newline untranslated, like a pipe under a UTF-8 locale."""

    def __init__(self):
        super().__init__(io.BytesIO(), encoding='utf-8', errors='strict', newline='', write_through=True)

    def getvalue(self):
        self.flush()
        data = self.buffer.getvalue()
        # read back in the encoding the stream has at the end (a program may have switched it with reconfigure())
        try:
            return data.decode(self.encoding or 'utf-8', errors='surrogateescape')
        except LookupError:
            return data.decode('utf-8', errors='surrogateescape')


class Run:
    def __init__(self):
        self.stdout = []
        self.stderr = ''
        self.events = []      # ('pt', pt, prob, n) / ('omen_restore', n)
        self.exc = None
        self.sav = None
        self.sav_raw = None
        self.omn = None
        self.quit_fired_at = None

    def guesses(self):
        return self.stdout


class _FakeThread:
    def __init__(self, driver, target=None, args=(), **kw):
        self.driver = driver
        self.daemon = False
        driver.thread_created += 1
        driver.kb_target, driver.kb_args = target, args

    def start(self):
        pass

    def is_alive(self):
        return not self.driver.fired

    def join(self, timeout=None):
        pass


class _ShimThreading:
    def __init__(self, driver, real):
        self._driver = driver
        self._real = real

    def Thread(self, *a, **kw):
        return _FakeThread(self._driver, *a, **kw)

    def Lock(self):
        return _InjectLock(self._driver, False)

    def RLock(self):
        return _InjectLock(self._driver, True)

    def main_thread(self):
        return self._real.main_thread()

    def __getattr__(self, name):
        return getattr(self._real, name)


class KbWouldBlock(BaseException):
    """The keyboard body, run synchronously at an injection point, asked for a lock the generating thread holds at that point: in a real run the
    keyboard thread would wait there.  'Runs to completion here' is then not a schedule that exists; the injection is abandoned."""


class _InjectLock:
    """Lock / RLock stand-in for the sequential driver (one real thread plays both roles)."""

    def __init__(self, driver, reentrant):
        self._d, self._re = driver, reentrant
        self._owner = None      # 'main' / 'kb'
        self._depth = 0
        driver.locks.append(self)

    def acquire(self, blocking=True, timeout=-1):
        me = 'kb' if self._d.injecting else 'main'
        if self._owner is None or (self._re and self._owner == me):
            self._owner = me
            self._depth += 1
            return True
        if self._owner == me:
            raise RuntimeError('harness: the %s role acquires a non-reentrant lock it already holds (a real run would deadlock here)' % me)
        if not blocking:
            return False
        if me == 'kb':
            self._d.kb_blocked = True
            raise KbWouldBlock()
        raise RuntimeError('harness: the generating role needs a lock that the abandoned keyboard body still holds')

    def release(self):
        self._depth -= 1
        if self._depth <= 0:
            self._owner, self._depth = None, 0

    def locked(self):
        return self._owner is not None

    __enter__ = acquire

    def __exit__(self, *a):
        self.release()


class _Clock:
    """time module stand-in: sleep() returns at once, perf_counter() is the driver's clock."""

    def __init__(self, real, driver):
        self._real, self._driver = real, driver

    def sleep(self, secs):
        pass

    def perf_counter(self):
        return self._driver.clock

    def __getattr__(self, name):
        return getattr(self._real, name)


class Driver:
    def __init__(self, quit_after=None, keys=None):
        self.quit_after = quit_after
        self.keys = keys            # (j, [answers of input()], seconds on the session clock): the real keypress() body is run synchronously after guess j
        self.keys_done = False
        self.clock = 0.0
        self.kb_target = self.kb_args = None
        self.cs = None
        self.fired = False
        self.nguess = 0
        self.thread_created = 0
        self.pcfg = None
        self.locks = []
        self.injecting = False      # the keyboard body is being run synchronously right now
        self.kb_blocked = False     # ... and it had to be abandoned because it needed a lock the generating role holds

    def drop_kb_locks(self):
        # whatever the (finished or abandoned) keyboard body still holds is given back: a body that was abandoned never ran past that point
        for l in self.locks:
            if l._owner == 'kb':
                l._owner, l._depth = None, 0

    def maybe_keys(self, pcfg):
        if self.keys is None or self.keys_done or self.nguess < self.keys[0] or self.kb_target is None:
            return
        self.keys_done = True
        answers = list(self.keys[1])
        self.clock = float(self.keys[2])

        def fake_input(*a):
            # like the real input() when stdin / stdout are not terminals: a prompt goes to standard output
            if a and a[0]:
                sys.stdout.write(str(a[0]))
            if not answers:
                raise EOFError('EOF when reading a line')
            return answers.pop(0)
        self.cs.input = fake_input
        self.injecting = True
        try:
            self.kb_target(*self.kb_args)
        except KbWouldBlock:
            pass
        finally:
            self.injecting = False
            self.drop_kb_locks()
        if pcfg.should_exit:
            self.fired = True

    def maybe_fire(self, pcfg):
        self.maybe_keys(pcfg)
        if self.quit_after is not None and not self.fired and self.nguess >= self.quit_after:
            self.fired = True
            pcfg.should_exit = True


def canonical_sav(text):
    cp = configparser.ConfigParser()
    cp.read_string(text)
    d = {}
    for sec in cp.sections():
        for k, v in cp.items(sec):
            if k in ('first_started', 'last_updated', 'running_time'):
                continue
            d['%s.%s' % (sec, k)] = v
    return d


def run_guesser(tdir, argv, quit_after=None, session='default_run', keep_modules=False, keys=None, queue_cap=None, rng=None, line_keys=None):
    """One 'process' of pcfg_guesser in the scratch tree `tdir`."""
    import threading as real_threading
    if not keep_modules:
        tree.use(tdir)
    run = Run()
    drv = Driver(quit_after, keys)
    # line_keys = (k, [answers of input()], seconds): the real keypress() body is run synchronously at the k-th line boundary that the generating
    # thread reaches inside lib_guesser after the keyboard thread exists (k = 0: only count the boundaries) - the schedule "main is preempted there,
    # the keyboard thread runs until it blocks or ends"
    line_state = {'n': 0, 'busy': False}
    lib_prefix = os.path.join(os.path.realpath(tdir), 'lib_guesser') + os.sep

    def local_trace(frame, event, arg):
        if event == 'line' and not line_state['busy'] and drv.kb_target is not None:
            line_state['n'] += 1
            if line_keys and line_state['n'] == line_keys[0]:
                line_state['busy'] = True
                try:
                    answers = list(line_keys[1])
                    drv.clock = float(line_keys[2])

                    def fake_input(*a):
                        # like the real input() when stdin / stdout are not terminals: a prompt goes to standard output
                        if a and a[0]:
                            sys.stdout.write(str(a[0]))
                        if not answers:
                            raise EOFError('EOF when reading a line')
                        return answers.pop(0)
                    drv.cs.input = fake_input
                    drv.injecting = True
                    try:
                        drv.kb_target(*drv.kb_args)
                    except KbWouldBlock:
                        pass
                    finally:
                        drv.injecting = False
                        drv.drop_kb_locks()
                    if drv.pcfg is not None and drv.pcfg.should_exit:
                        drv.fired = True
                finally:
                    line_state['busy'] = False
        return local_trace

    def global_trace(frame, event, arg):
        if line_state['busy']:
            return None
        fn = frame.f_code.co_filename
        if fn.startswith(lib_prefix) or os.path.realpath(fn).startswith(lib_prefix):
            return local_trace
        return None
    out, err = Capture(), Capture()
    old_argv = sys.argv
    saved_random = {}
    sys.argv = [os.path.join(tdir, 'pcfg_guesser.py')] + list(argv)
    try:
        with contextlib.redirect_stdout(out), contextlib.redirect_stderr(err):
            try:
                pg = tree.imp('pcfg_guesser')
                cs = sys.modules['lib_guesser.cracking_session']
                gm = sys.modules['lib_guesser.pcfg_grammar']
                shim = _ShimThreading(drv, real_threading)
                cs.threading = shim
                # locks created by the code under test are the driver's (every lib_guesser module that names threading / Lock / RLock)
                for mname, mod in list(sys.modules.items()):
                    if mod is None or not (mname == 'pcfg_guesser' or mname.startswith('lib_guesser')):
                        continue
                    for attr, val in list(vars(mod).items()):
                        if val is real_threading:
                            setattr(mod, attr, shim)
                        elif val is real_threading.Lock:
                            setattr(mod, attr, shim.Lock)
                        elif val is real_threading.RLock:
                            setattr(mod, attr, shim.RLock)
                if keys is not None or line_keys is not None:
                    import time as real_time
                    drv.cs = cs
                    cs.time = _Clock(real_time, drv)
                    sys.modules['lib_guesser.status_report'].time = _Clock(real_time, drv)
                if rng is not None:
                    # the random source of the honeyword / random-walk modes (module-level `random` of both modules) is the driver's
                    gm.random = rng
                    hs = sys.modules.get('lib_guesser.honeyword_session')
                    if hs is not None:
                        hs.random = rng
                    # ... and so are the functions of the real module (a function that was handed the module itself draws from those)
                    import random as real_random_module
                    for name in ('random', 'choice', 'seed', 'randint'):
                        if hasattr(rng, name):
                            saved_random[name] = getattr(real_random_module, name)
                            setattr(real_random_module, name, getattr(rng, name))
                if queue_cap is not None:
                    # PcfgQueue.max_queue_size (50000 in the code, "used for memory management") scaled down to the size of the harness rulesets
                    Q = sys.modules['lib_guesser.priority_queue'].PcfgQueue
                    q_init = Q.__init__

                    def q_init_capped(self, *a, **kw):
                        q_init(self, *a, **kw)
                        self.max_queue_size = queue_cap
                    Q.__init__ = q_init_capped
                G = gm.PcfgGrammar
                orig_print = G.print_guess
                orig_create = G.create_guesses
                orig_restore = G.restore_omen
                orig_init = G.__init__

                def init(self, *a, **kw):
                    orig_init(self, *a, **kw)
                    drv.pcfg = self
                    # quit requested before the first guess (j = 0)
                    drv.maybe_fire(self)

                def print_guess(self, guess):
                    orig_print(self, guess)
                    drv.nguess += 1
                    drv.maybe_fire(self)

                def create_guesses(self, pt, *a, **kw):
                    n = orig_create(self, pt, *a, **kw)
                    run.events.append(('pt', tuple(tuple(x) for x in pt), n))
                    return n

                def restore_omen(self, *a, **kw):
                    n = orig_restore(self, *a, **kw)
                    run.events.append(('omen_restore', n))
                    return n

                G.__init__ = init
                G.print_guess = print_guess
                G.create_guesses = create_guesses
                G.restore_omen = restore_omen
                if line_keys is not None:
                    sys.settrace(global_trace)
                try:
                    pg.main()
                finally:
                    if line_keys is not None:
                        sys.settrace(None)
            except SystemExit as e:
                run.exc = 'SystemExit(%r)' % (e.code,)
            except BaseException as e:   # noqa
                import traceback
                run.exc = traceback.format_exc()
    finally:
        sys.argv = old_argv
        if saved_random:
            import random as real_random_module
            for name, fn in saved_random.items():
                setattr(real_random_module, name, fn)
    text = out.getvalue()
    run.stdout = text.split('\n')
    if run.stdout and run.stdout[-1] == '':
        run.stdout.pop()
    run.stderr = err.getvalue()
    run.quit_fired_at = drv.nguess if drv.fired else None
    run.fired = drv.fired
    run.line_events = line_state['n']
    run.kb_blocked = drv.kb_blocked
    sav = os.path.join(tdir, session + '.sav')
    if os.path.exists(sav):
        with open(sav) as f:
            run.sav_raw = f.read()
        try:
            run.sav = canonical_sav(run.sav_raw)
        except Exception as e:
            run.sav = {'unparsable': repr(e)}
    omn = os.path.join(tdir, session + '.omn')
    if os.path.exists(omn):
        with open(omn, 'rb') as f:
            run.omn = f.read()
    return run


def clear_session(tdir, session='default_run'):
    for ext in ('.sav', '.omn'):
        p = os.path.join(tdir, session + ext)
        if os.path.exists(p):
            os.unlink(p)


def set_session(tdir, sav_raw, omn, session='default_run'):
    clear_session(tdir, session)
    if sav_raw is not None:
        with open(os.path.join(tdir, session + '.sav'), 'w') as f:
            f.write(sav_raw)
    if omn is not None:
        with open(os.path.join(tdir, session + '.omn'), 'wb') as f:
            f.write(omn)


def run_cli(tdir, module, argv):
    """Run <module>.main() of the scratch tree as a fresh process; returns Run (stdout lines, stderr, pt events)."""
    tree.use(tdir)
    run = Run()
    out, err = Capture(), Capture()
    old_argv = sys.argv
    sys.argv = [os.path.join(tdir, module + '.py')] + list(argv)
    try:
        with contextlib.redirect_stdout(out), contextlib.redirect_stderr(err):
            try:
                mod = tree.imp(module)
                gm = sys.modules.get('lib_guesser.pcfg_grammar')
                if gm is not None:
                    G = gm.PcfgGrammar
                    orig_create = G.create_guesses

                    def create_guesses(self, pt, *a, **kw):
                        n = orig_create(self, pt, *a, **kw)
                        run.events.append(('pt', tuple(tuple(x) for x in pt), n))
                        return n
                    G.create_guesses = create_guesses
                mod.main()
            except SystemExit as e:
                run.exc = 'SystemExit(%r)' % (e.code,)
            except BaseException:
                import traceback
                run.exc = traceback.format_exc()
    finally:
        sys.argv = old_argv
    run.stdout = out.getvalue().split('\n')
    if run.stdout and run.stdout[-1] == '':
        run.stdout.pop()
    run.stderr = err.getvalue()
    return run
