"""E-sched: stateless, preemption-bounded exploration of the keyboard thread vs. the generation loop
(CHESS style) on the real CrackingSession / keypress code.

Two threads: 0 = the generation loop (pcfg_guesser.main() called in the worker's own thread),
1 = keypress() running in a real OS thread that only ever runs while it holds the baton.
Scheduling points (DESIGN C12):
  main  : Thread.start(), every user_thread.is_alive(), every read of pcfg.should_exit, after every
          print_guess, before restore_omen
  thread: before input() consumes its scripted answer, sleep() (a yield: switching there is free),
          before print_status, before EVERY write to stderr (status / help / exit text), before and after the write of
          pcfg.should_exit, at return/raise
Between two points neither thread touches state the other one writes (the shared state is
should_exit, report.pt_item, omen_guess_num and the thread's liveness).
input() answers come from a script: '' / 'h' / 'q' / EOF (EOFError) / ERR (ValueError) / BLOCK
(never returns: a terminal or an open pipe); after the script: BLOCK.  'S!' = an empty line whose
status print fails once (stderr unusable); 'S!k' = the k-th stderr write of that status report fails.
"""
import contextlib
import io
import os
import sys
import threading as real_threading

from . import tree
from . import session as S


class Kill(BaseException):
    pass


class Point:
    __slots__ = ('tid', 'label', 'enabled', 'running_enabled', 'yielding', 'chosen')

    def __init__(self, tid, label, enabled, running_enabled, yielding):
        self.tid, self.label, self.enabled = tid, label, enabled
        self.running_enabled, self.yielding, self.chosen = running_enabled, yielding, 0


class Scheduler:
    def __init__(self, choices):
        self.choices = list(choices)
        self.points = []
        self.sems = {0: real_threading.Semaphore(0), 1: real_threading.Semaphore(0)}
        self.state = {0: 'run', 1: 'absent'}        # run/ready/blocked/done/absent
        self.main_done = False
        self.killing = False
        self.kb = None
        self.diverged = None
        self.main_points = 0
        self.kb_natural_end = False

    # -- core ---------------------------------------------------------------------------------
    def _enabled(self, tid, self_enabled=True):
        others = [t for t in (0, 1) if t != tid and self.state[t] in ('ready',)]
        if self_enabled:
            return [tid] + others
        return others

    def point(self, tid, label, yielding=False, self_enabled=True):
        """tid is the running thread. Decide who runs next."""
        if self.killing and tid == 1:
            raise Kill()
        if tid == 0:
            self.main_points += 1
        en = self._enabled(tid, self_enabled)
        p = Point(tid, label, en, self_enabled, yielding)
        idx = len(self.points)
        self.points.append(p)
        if not en:
            # nobody can run: only possible when main is done (handled by caller)
            return
        c = self.choices[idx] if idx < len(self.choices) else 0
        if c >= len(en):
            self.diverged = 'choice %d out of range at point %d (%s), enabled %r' % (c, idx, label, en)
            c = 0
        p.chosen = c
        nxt = en[c]
        if nxt != tid:
            if self_enabled:
                self.state[tid] = 'ready'
            self.state[nxt] = 'run'
            self.sems[nxt].release()
            self.sems[tid].acquire()
            if self.killing and tid == 1:
                raise Kill()
            self.state[tid] = 'run'

    def wait_for_lock(self, tid, lock):
        """The running thread needs `lock`, which is held: it is not enabled until the lock is released."""
        self.state[tid] = 'blocked'
        self.waiting = getattr(self, 'waiting', {})
        self.waiting[tid] = lock
        others = [t for t in (0, 1) if t != tid and self.state[t] == 'ready']
        if not others:
            self.deadlock = 'thread %d waits for a lock held by thread %r (state %s) and no thread can run' % (tid, lock.owner, self.state.get(lock.owner))
            self.state[tid] = 'run'
            del self.waiting[tid]
            raise Deadlock(self.deadlock)
        self.point(tid, 'lock_wait', self_enabled=False)
        # resumed: either the lock was released (state set to ready by lock_released, then chosen) or the run is being killed
        if self.killing and tid == 1:
            raise Kill()
        self.state[tid] = 'run'

    def lock_released(self, lock):
        for t, l in list(getattr(self, 'waiting', {}).items()):
            if l is lock:
                del self.waiting[t]
                self.state[t] = 'ready'

    def block_forever(self, tid):
        """The running thread blocks and never becomes enabled again."""
        self.state[tid] = 'blocked'
        self.point(tid, 'blocked', self_enabled=False)
        # only reachable when killed
        raise Kill()

    def finish(self, tid):
        self.state[tid] = 'done'
        if tid == 1:
            # hand the baton back to main (free switch)
            if not self.killing:
                self.kb_natural_end = True
                p = Point(1, 'thread_exit', [0], False, False)
                self.points.append(p)
                self.state[0] = 'run'
                self.sems[0].release()

    def main_finished(self):
        self.main_done = True
        self.killing = True
        if self.kb is not None and self.state[1] in ('ready', 'blocked'):
            self.sems[1].release()
        if self.kb is not None:
            self.kb.join(5)
            if self.kb.is_alive():
                raise RuntimeError('harness: keyboard thread did not terminate')


class SchedThread:
    def __init__(self, sched, target, args):
        self.sched, self.target, self.args = sched, target, args
        self.daemon = False
        self.real = None
        self.exc = None

    def _body(self):
        sc = self.sched
        sc.sems[1].acquire()
        try:
            if sc.killing:
                return
            sc.state[1] = 'run'
            try:
                self.target(*self.args)
            except Kill:
                return
            except BaseException as e:   # unhandled exception in the thread: it dies (traceback on stderr)
                self.exc = repr(e)
                print('Exception in thread: %r' % (e,), file=sys.stderr)
        finally:
            if not sc.killing:
                sc.finish(1)
            else:
                sc.state[1] = 'done'

    def start(self):
        sc = self.sched
        self.real = real_threading.Thread(target=self._body, daemon=True)
        sc.kb = self.real
        sc.state[1] = 'ready'
        self.real.start()
        sc.point(0, 'thread_start')

    def is_alive(self):
        self.sched.point(0, 'is_alive')
        return self.sched.state[1] != 'done'

    def join(self, timeout=None):
        pass


class Deadlock(BaseException):
    """Raised in the running thread when it has to wait for a lock and no other thread can ever run again."""


class SchedLock:
    """threading.Lock / RLock as the scheduler sees it: acquire and release are scheduling points, waiting is visible (a thread that waits is not
    enabled), and a wait that nobody can end is a deadlock of the execution - not of the harness."""

    def __init__(self, sched, reentrant=False):
        self.s, self.reentrant = sched, reentrant
        self.owner = None
        self.depth = 0

    def _tid(self):
        return 1 if (self.s.kb is not None and real_threading.current_thread() is self.s.kb) else 0

    def acquire(self, blocking=True, timeout=-1):
        tid = self._tid()
        if not self.s.killing:
            self.s.point(tid, 'lock_acquire')
        if self.reentrant and self.owner == tid:
            self.depth += 1
            return True
        while self.owner is not None:
            if not blocking or self.s.killing:
                return False
            self.s.wait_for_lock(tid, self)
        self.owner = tid
        self.depth = 1
        return True

    def release(self):
        tid = self._tid()
        if self.owner is None:
            raise RuntimeError('release unlocked lock')
        self.depth -= 1
        if self.depth > 0:
            return
        self.owner = None
        self.s.lock_released(self)
        if not self.s.killing:
            self.s.point(tid, 'lock_release')

    def locked(self):
        return self.owner is not None

    __enter__ = acquire

    def __exit__(self, *a):
        self.release()


class _MainThreadShim:
    def __init__(self, sched):
        self.sched = sched

    def is_alive(self):
        return not self.sched.main_done


class _ThreadingShim:
    def __init__(self, sched):
        self._s = sched
        self.created = []

    def Thread(self, target=None, args=(), **kw):
        t = SchedThread(self._s, target, args)
        self.created.append(t)
        return t

    def main_thread(self):
        return _MainThreadShim(self._s)

    def Lock(self):
        return SchedLock(self._s)

    def RLock(self):
        return SchedLock(self._s, reentrant=True)

    def __getattr__(self, name):
        if name in ('Condition', 'Event', 'Semaphore', 'BoundedSemaphore', 'Barrier', 'Timer'):
            raise RuntimeError('harness: the code under test uses threading.%s, which the scheduler does not model' % name)
        return getattr(real_threading, name)


def install_threading(shim):
    """Every lib_guesser module sees the scheduler's threading: locks created by the code under test are scheduler locks."""
    for name, mod in list(sys.modules.items()):
        if not (name == 'pcfg_guesser' or name.startswith('lib_guesser')) or mod is None:
            continue
        for attr, val in list(vars(mod).items()):
            if val is real_threading:
                setattr(mod, attr, shim)
            elif val is real_threading.Lock:
                setattr(mod, attr, shim.Lock)
            elif val is real_threading.RLock:
                setattr(mod, attr, shim.RLock)


class _TimeShim:
    def __init__(self, sched, real):
        self._s, self._real = sched, real

    def sleep(self, secs):
        self._s.point(1, 'sleep', yielding=True)

    def __getattr__(self, name):
        return getattr(self._real, name)


class Outcome:
    pass


def run_scheduled(tdir, argv, script, choices, session='default_run'):
    """One execution under the given choice prefix. Returns Outcome."""
    import time as real_time
    tree.use(tdir)
    sc = Scheduler(choices)
    script = list(script)
    o = Outcome()
    o.exit_write = None           # (main points passed, guesses printed) at the should_exit write
    o.consumed = []               # input() answers consumed so far
    o.exit_after_q = None
    o.q_dropped = False           # the thread came back for more input after a q without having set the flag
    o.status_calls = 0
    o.thread_exc = None
    nprinted = [0]
    fail_status = [0]      # k of a pending 'S!k' answer
    armed = [0]            # stderr writes left until the failure, while a status report is being printed
    class _ErrProxy(io.StringIO):
        # every stderr write of the keyboard thread is a scheduling point (real writes release the GIL)
        def write(self, text):
            if text not in ('', '\n') and sc.kb is not None and real_threading.current_thread() is sc.kb and not sc.killing:
                sc.point(1, 'stderr_write')
                if armed[0] > 0:
                    # 'S!k': stderr becomes unusable at the k-th write of the status report (inside print_status, after whatever it has set up by then)
                    armed[0] -= 1
                    if armed[0] == 0:
                        raise OSError('stderr unusable')
            return io.StringIO.write(self, text)
    out, err = S.Capture(), _ErrProxy()
    old_argv = sys.argv
    sys.argv = [os.path.join(tdir, 'pcfg_guesser.py')] + list(argv)
    shim = _ThreadingShim(sc)
    exc = None
    events = []
    try:
        with contextlib.redirect_stdout(out), contextlib.redirect_stderr(err):
            try:
                pg = tree.imp('pcfg_guesser')
                cs = sys.modules['lib_guesser.cracking_session']
                gm = sys.modules['lib_guesser.pcfg_grammar']
                sr = sys.modules['lib_guesser.status_report']
                cs.threading = shim
                install_threading(shim)
                cs.time = _TimeShim(sc, real_time)
                def fake_input(*a):
                    # like the real input() when stdin / stdout are not terminals: a prompt goes to standard output
                    if a and a[0]:
                        sys.stdout.write(str(a[0]))
                    if o.consumed and o.consumed[-1] == 'q' and o.exit_write is None:
                        o.q_dropped = True
                    sc.point(1, 'input')
                    if not script:
                        sc.block_forever(1)
                    a0 = script.pop(0)
                    o.consumed.append(a0)
                    if a0 == 'BLOCK':
                        sc.block_forever(1)
                    if a0 == 'EOF':
                        raise EOFError('EOF when reading a line')
                    if a0 == 'ERR':
                        raise ValueError('I/O operation on closed file.')
                    if a0.startswith('S!'):
                        fail_status[0] = int(a0[2:] or 1)
                        return ''
                    return a0
                cs.input = fake_input
                G = gm.PcfgGrammar

                def is_kb():
                    return real_threading.current_thread() is sc.kb

                def get_exit(self):
                    if not is_kb() and sc.state[1] != 'absent' and not sc.main_done:
                        sc.point(0, 'read_exit')
                    return self.__dict__.get('_should_exit', False)

                def set_exit(self, v):
                    if is_kb():
                        sc.point(1, 'write_exit')
                        o.exit_write = (sc.main_points, nprinted[0])
                        o.exit_after_q = bool(o.consumed and o.consumed[-1] == 'q')
                        self.__dict__['_should_exit'] = v
                        sc.point(1, 'after_write')
                        return
                    self.__dict__['_should_exit'] = v
                G.should_exit = property(get_exit, set_exit)
                orig_print = G.print_guess

                def print_guess(self, guess):
                    orig_print(self, guess)
                    nprinted[0] += 1
                    if sc.state[1] != 'absent':
                        sc.point(0, 'guess')
                G.print_guess = print_guess
                orig_restore = G.restore_omen

                def restore_omen(self, *a, **kw):
                    sc.point(0, 'restore_omen')
                    return orig_restore(self, *a, **kw)
                G.restore_omen = restore_omen
                orig_create = G.create_guesses

                def create_guesses(self, pt, *a, **kw):
                    n = orig_create(self, pt, *a, **kw)
                    events.append(('pt', tuple(tuple(x) for x in pt), n))
                    return n
                G.create_guesses = create_guesses
                SR = sr.StatusReport
                orig_status = SR.print_status

                def print_status(self, pcfg):
                    sc.point(1, 'status')
                    o.status_calls += 1
                    if fail_status[0]:
                        armed[0], fail_status[0] = fail_status[0], 0
                    try:
                        return orig_status(self, pcfg)
                    finally:
                        if armed[0] > 0:
                            # the report made fewer writes than k (e.g. nothing to report yet): the failure still happens, at the end of the call
                            armed[0] = 0
                            raise OSError('stderr unusable')
                SR.print_status = print_status
                pg.main()
            except SystemExit as e:
                exc = 'SystemExit(%r)' % (e.code,)
            except Kill:
                exc = 'Kill leaked into main'
            except Deadlock as e:
                exc = 'Deadlock: %s' % (e,)
            except BaseException:
                import traceback
                exc = traceback.format_exc()
            finally:
                sc.main_finished()
    finally:
        sys.argv = old_argv
    run = S.Run()
    run.exc = exc
    text = out.getvalue()
    run.stdout = text.split('\n')
    if run.stdout and run.stdout[-1] == '':
        run.stdout.pop()
    run.stderr = err.getvalue()
    run.events = events
    sav = os.path.join(tdir, session + '.sav')
    if os.path.exists(sav):
        with open(sav) as f:
            run.sav_raw = f.read()
        run.sav = S.canonical_sav(run.sav_raw)
    omn = os.path.join(tdir, session + '.omn')
    if os.path.exists(omn):
        with open(omn, 'rb') as f:
            run.omn = f.read()
    o.run = run
    o.points = sc.points
    o.choices = [p.chosen for p in sc.points]
    o.diverged = sc.diverged
    o.script_left = list(script)
    if shim.created:
        o.thread_exc = shim.created[0].exc
    o.labels = [(p.tid, p.label) for p in sc.points]
    o.kb_natural_end = sc.kb_natural_end
    return o


def preemptions(points, upto=None):
    n = 0
    for p in points[:upto]:
        if p.chosen != 0 and p.running_enabled and not p.yielding:
            n += 1
    return n


def explore(run_fn, bound, on_execution, max_exec=None):
    """DFS over choice prefixes, preemption bounded. run_fn(prefix) -> Outcome."""
    stack = [[]]
    nexec = 0
    capped = False
    while stack:
        prefix = stack.pop()
        o = run_fn(prefix)
        nexec += 1
        if o.diverged:
            raise RuntimeError('harness: schedule diverged while replaying a prefix: %s' % o.diverged)
        if o.choices[:len(prefix)] != prefix[:len(o.choices)] or len(o.choices) < len(prefix):
            raise RuntimeError('harness: replay of prefix %r produced choices %r' % (prefix, o.choices))
        on_execution(o)
        if max_exec and nexec >= max_exec:
            capped = bool(stack)
            break
        for i in range(len(prefix), len(o.points)):
            p = o.points[i]
            if len(p.enabled) < 2:
                continue
            cost = preemptions(o.points, i)
            if p.running_enabled and not p.yielding:
                cost += 1
            if cost > bound:
                continue
            for alt in range(1, len(p.enabled)):
                stack.append(o.choices[:i] + [alt])
    return nexec, capped
