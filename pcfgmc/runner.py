"""Check runner: shards a property's finite case space over worker processes, aggregates,
matches failures against known_findings.json, writes evidence and replay files.

Exit codes: 0 property held on everything explored (KNOWN-FINDING lines allowed),
            1 at least one violation not listed as known (VIOLATION lines printed),
            2 harness error (never a verdict).
"""
import argparse
import hashlib
import contextlib
import importlib
import json
import multiprocessing as mp
import os
import signal
import sys
import time
import traceback

VERIF = os.path.dirname(os.path.dirname(os.path.abspath(__file__)))
KNOWN = os.path.join(VERIF, 'known_findings.json')


class Acc:
    """Accumulator a shard fills in and the runner merges."""

    def __init__(self):
        self.evals = 0
        self.nontrivial = 0
        self.states = 0
        self.transitions = 0
        self.validated = 0
        self.counters = {}
        self.sets = {}
        self.failures = []
        self.samples = []
        self.capped = False
        self.notes = []

    def count(self, name, n=1):
        self.counters[name] = self.counters.get(name, 0) + n

    def add(self, name, item):
        self.sets.setdefault(name, set()).add(item)

    def fail(self, case, msg, sig, oracle=None):
        if len(self.failures) < 200 or ('failsig:' + sig) not in self.counters:
            self.failures.append({'case': case, 'msg': msg, 'sig': sig, 'oracle': oracle})
        self.count('failures_total')
        self.count('failsig:' + sig)

    def sample(self, s, cap=3):
        if len(self.samples) < cap:
            self.samples.append(s)

    def export(self):
        d = dict(self.__dict__)
        d['sets'] = {k: sorted(v, key=repr) for k, v in self.sets.items()}
        return d


def merge(total, part):
    for k in ('evals', 'nontrivial', 'states', 'transitions', 'validated'):
        setattr(total, k, getattr(total, k) + part[k])
    for k, v in part['counters'].items():
        total.counters[k] = total.counters.get(k, 0) + v
    for k, v in part['sets'].items():
        total.sets.setdefault(k, set()).update(_hashable(x) for x in v)
    total.failures.extend(part['failures'])
    total.samples.extend(part['samples'])
    total.capped = total.capped or part['capped']
    total.notes.extend(part['notes'])


def _hashable(x):
    if isinstance(x, list):
        return tuple(_hashable(y) for y in x)
    return x


class ShardTimeout(BaseException):
    pass


class StepTimeout(BaseException):
    pass


@contextlib.contextmanager
def step_deadline(seconds):
    """One call into the code under test that has to return within `seconds`: a loop that never ends is then a finding of that call instead of a
    shard that hits the watchdog.  Nests inside the shard watchdog (whose remaining time is put back afterwards)."""
    def on_alarm(signum, frame):
        raise StepTimeout('no return within %d s' % seconds)
    old = signal.getsignal(signal.SIGALRM)
    remaining = signal.alarm(0)
    signal.signal(signal.SIGALRM, on_alarm)
    signal.alarm(seconds)
    try:
        yield
    finally:
        signal.alarm(0)
        signal.signal(signal.SIGALRM, old)
        if remaining:
            signal.alarm(remaining)


def _work(arg):
    pid, tier, shard = arg
    # watchdog: a shard that never returns (code under test blocking outside the harness's control) ends the run with a harness error instead of hanging it
    import signal
    limit = int(os.environ.get('PCFG_VERIF_SHARD_TIMEOUT', '5400'))

    def on_alarm(signum, frame):
        raise ShardTimeout('shard %r did not finish within %d s' % (shard, limit))
    try:
        signal.signal(signal.SIGALRM, on_alarm)
        signal.alarm(limit)
    except (ValueError, AttributeError):
        pass
    acc = None
    try:
        mod = importlib.import_module('pcfgmc.props.' + pid.lower())
        acc = Acc()
        mod.run_shard(shard, tier, acc)
        return ('ok', acc.export())
    except Exception as e:
        # An exception nobody caught.  If the frame that let it out belongs to the code under test (it raised while being used the way it is used on
        # every passing run), that is a finding about that code: it is reported as a VIOLATION with the traceback, not as a broken check.  If the frame
        # belongs to the harness (an interface it relies on is gone, a bug of its own), the check cannot decide anything: harness error.
        where = _raised_in_code_under_test(e)
        if where and acc is not None:
            acc.fail({'uncaught': True, 'shard': list(shard) if isinstance(shard, tuple) else shard, 'tier': tier},
                     'the code under test raised %r in %s while shard %r was exploring; traceback tail: %s'
                     % (e, where, shard, ' | '.join(l.strip() for l in traceback.format_exc().strip().splitlines()[-6:])), 'uncaught-raise:' + where.split(':')[0])
            return ('ok', acc.export())
        return ('err', 'shard %r: %s' % (shard, traceback.format_exc()))
    except BaseException:
        return ('err', 'shard %r: %s' % (shard, traceback.format_exc()))
    finally:
        try:
            signal.alarm(0)
        except (ValueError, AttributeError):
            pass


_TOOLS = ('pcfg_guesser.py', 'trainer.py', 'password_scorer.py', 'prince_ling.py', 'edit_rules.py')


def _raised_in_code_under_test(exc):
    """'<file>:<function>' of the outermost non-library frame below which the exception was raised, if that frame is code under test; else None."""
    frames = traceback.extract_tb(exc.__traceback__)
    own = os.path.join(VERIF, '')
    for fr in reversed(frames):
        fn = fr.filename
        if fn.startswith(own):
            return None                          # a harness frame is the innermost non-library frame
        parts = fn.replace('\\', '/').split('/')
        if any(p in ('lib_guesser', 'lib_trainer', 'lib_scorer', 'lib_princeling') for p in parts) or parts[-1] in _TOOLS:
            return '%s:%s' % ('/'.join(parts[-2:]) if parts[-1] not in _TOOLS else parts[-1], fr.name)
        # anything else (standard library, site-packages): called by the frame above it - keep walking outwards
    return None


def match_known(sig, known_sigs):
    if sig in known_sigs:
        return sig
    for k in known_sigs:
        if k.endswith('*') and sig.startswith(k[:-1]):
            return k
    return None


def load_known():
    if not os.path.exists(KNOWN):
        return []
    with open(KNOWN) as f:
        return json.load(f)['findings']


def sha(obj):
    return hashlib.sha1(json.dumps(obj, sort_keys=True, default=repr).encode()).hexdigest()[:12]


def main(argv=None):
    ap = argparse.ArgumentParser()
    ap.add_argument('prop')
    ap.add_argument('--tier', default=os.environ.get('VERIF_TIER', 'quick'), choices=['quick', 'thorough'])
    ap.add_argument('--replay')
    ap.add_argument('--jobs', type=int, default=int(os.environ.get('VERIF_JOBS', '0')) or min(16, os.cpu_count() or 1))
    ap.add_argument('--no-evidence', action='store_true')
    args = ap.parse_args(argv)
    pid = args.prop.upper()
    seed = int(os.environ.get('VERIF_SEED', '0') or 0)
    mod = importlib.import_module('pcfgmc.props.' + pid.lower())

    if args.replay:
        with open(args.replay) as f:
            rec = json.load(f)
        if isinstance(rec['case'], dict) and rec['case'].get('uncaught'):
            sh = rec['case']['shard']
            status, payload = _work((pid, rec['case'].get('tier', 'quick'), tuple(sh) if isinstance(sh, list) else sh))
            fs = [f for f in (payload.get('failures', []) if status == 'ok' else []) if f['sig'].startswith('uncaught-raise')]
            res = fs[0]['msg'] if fs else (payload if status != 'ok' else None)
        else:
            res = mod.replay(rec['case'])
        if res is None:
            print('replay: property holds on this case')
            return 0
        print('replay: %s' % res)
        print('VIOLATION property=%s replay=%s' % (pid, args.replay))
        return 1

    # every scratch directory of this run lives under one root which the parent removes whatever happens to the workers
    import shutil
    import tempfile
    from . import tree as _tree
    run_root = tempfile.mkdtemp(prefix='pcfgmc-run-%s-' % pid.lower(), dir=_tree.tmp_root())
    os.environ['PCFG_VERIF_TMP'] = run_root
    try:
        return _run(args, pid, seed, mod)
    finally:
        shutil.rmtree(run_root, ignore_errors=True)


def _run(args, pid, seed, mod):
    t0 = time.time()
    shards = list(mod.shards(args.tier))
    # VERIF_SEED only permutes shard-to-worker assignment; the case set is seed independent
    if seed:
        import random
        random.Random(seed).shuffle(shards)
    total = Acc()
    errors = []
    work = [(pid, args.tier, s) for s in shards]
    if args.jobs <= 1 or len(work) == 1:
        results = map(_work, work)
        pool = None
    else:
        ctx = mp.get_context('fork')
        pool = ctx.Pool(min(args.jobs, len(work)))
        results = pool.imap_unordered(_work, work)
    for status, payload in results:
        if status == 'ok':
            merge(total, payload)
        else:
            errors.append(payload)
    if pool:
        pool.close()
        pool.join()
    wall = time.time() - t0
    if errors:
        for e in errors[:5]:
            print('HARNESS ERROR: ' + e, file=sys.stderr)
        return 2

    # ---- classify failures -------------------------------------------------------------
    known = [k for k in load_known() if k['property'] == pid and k['status'] == 'known']
    known_sigs = {k['signature']: k for k in known}
    seen_known = {}
    new = {}
    for f in total.failures:
        if getattr(mod, 'ORACLES', None) and f.get('oracle') and f['oracle'] not in mod.ORACLES:
            continue
        ks = match_known(f['sig'], known_sigs)
        if ks is not None:
            f['known'] = ks
            seen_known.setdefault(ks, f)
        else:
            new.setdefault(f['sig'], f)
    for sig, f in sorted(seen_known.items()):
        n = sum(v for k, v in total.counters.items() if k.startswith('failsig:') and match_known(k[8:], known_sigs) == sig)
        print('KNOWN-FINDING: property=%s %s (%d cases this run; e.g. %s)' % (pid, known_sigs[sig]['text'], n, f['msg'][:200]))
    rc = 0
    nviol = 0
    for sig, f in sorted(new.items()):
        nviol += total.counters.get('failsig:' + sig, 1)
        rdir = os.path.join(os.environ.get('PCFG_VERIF_REPLAYS') or os.path.join(VERIF, 'replays'), pid)
        os.makedirs(rdir, exist_ok=True)
        case = f['case']
        if hasattr(mod, 'minimise'):
            try:
                case = mod.minimise(case)
            except Exception:
                pass
        path = os.path.join(rdir, sha(case) + '.json')
        with open(path, 'w') as fh:
            json.dump({'property': pid, 'signature': sig, 'msg': f['msg'], 'case': case}, fh, indent=1, default=repr)
        print('  %s: %s' % (sig, f['msg'][:600]))
        print('VIOLATION property=%s replay=%s' % (pid, path))
        rc = 1

    # ---- evidence ------------------------------------------------------------------------
    if not args.no_evidence:
        rot = seed % max(1, len(total.samples)) if total.samples else 0
        samples = (total.samples[rot:] + total.samples[:rot])[:6]
        cov = {
            'evaluations': total.evals,
            'distinct_nontrivial': total.nontrivial,
            'rule': mod.RULE,
            'samples': samples,
            'exhaustive': (not total.capped),
            'bounds': mod.bounds(args.tier),
            'counters': {k: v for k, v in sorted(total.counters.items()) if not k.startswith('failsig:')},
            'distinct_sets': {k: len(v) for k, v in sorted(total.sets.items())},
            'shards': len(shards),
            'tree': os.environ.get('PCFG_VERIF_REPO', '/repo'),
        }
        if total.notes:
            cov['notes'] = sorted(set(total.notes))[:20]
        if mod.LEVEL == 'model_checking':
            cov['states'] = total.states
            cov['transitions'] = total.transitions
            cov['traces_validated_against_impl'] = total.validated
        ev = {
            'property_id': pid, 'tier': args.tier, 'seed': seed, 'level': mod.LEVEL,
            'coverage': cov, 'assumptions': list(mod.ASSUMPTIONS), 'wall_s': round(wall, 2),
            'violations': nviol,
            'known_findings_seen': sorted(seen_known),
        }
        problems = validate_evidence(ev)
        if problems:
            print('HARNESS ERROR: evidence would not validate: %s' % problems, file=sys.stderr)
            return 2
        os.makedirs(os.path.join(VERIF, 'evidence'), exist_ok=True)
        with open(os.path.join(VERIF, 'evidence', pid + '.json'), 'w') as fh:
            json.dump(ev, fh, indent=1, default=repr, ensure_ascii=True)
    print('%s tier=%s evals=%d nontrivial=%d states=%d transitions=%d validated=%d violations=%d known=%d wall=%.1fs%s'
          % (pid, args.tier, total.evals, total.nontrivial, total.states, total.transitions,
             total.validated, nviol, len(seen_known), wall, ' CAPPED' if total.capped else ''))
    return rc


def validate_evidence(ev):
    """Minimal re-statement of EVIDENCE.schema.json's per-level rules (jsonschema is not in /venv)."""
    p = []
    c = ev['coverage']
    if ev['level'] == 'model_checking':
        if c.get('states', 0) < 1 or c.get('transitions', 0) < 1:
            p.append('states/transitions < 1')
        if not c.get('samples'):
            p.append('no samples')
    if c.get('evaluations', 0) < 1:
        p.append('evaluations < 1')
    if c.get('distinct_nontrivial', 0) < 2:
        p.append('distinct_nontrivial < 2')
    if not c.get('samples'):
        p.append('no samples')
    return p


if __name__ == '__main__':
    sys.exit(main())
