"""Verification-side ruleset builders: in-memory grammars for PcfgQueue-level checks and the
finite ruleset families (alphabets) the queue properties are explored over."""
import itertools
from fractions import Fraction

V_FULL = [1.0, 0.5, 0.25, 0.125, 0.7, 0.3, 0.1, 1e-200, 5e-324]
V_QUICK = [1.0, 0.5, 0.25, 0.3, 0.1]
V_TINY = [0.5, 0.25, 0.3]
V_UNDER = [1.0, 0.5, 1e-200, 5e-324]

PATTERNS = ['A', 'AA', 'AB', 'AAA', 'AAB', 'ABA', 'ABB', 'ABC']
# all restricted-growth strings of length 4 (set partitions of 4 positions into variable types)
PATTERNS4 = ['AAAA', 'AAAB', 'AABA', 'AABB', 'AABC', 'ABAA', 'ABAB', 'ABAC', 'ABBA', 'ABBB', 'ABBC', 'ABCA', 'ABCB', 'ABCC', 'ABCD']


def desc_lists(values, max_len, min_len=1):
    """All strictly descending lists (group probability lists) of length min_len..max_len."""
    vs = sorted(set(values), reverse=True)
    out = []
    for k in range(min_len, max_len + 1):
        out.extend(list(c) for c in itertools.combinations(vs, k))
    return out


_TEMPLATES = {}


def _template(PcfgGrammar):
    """A really constructed grammar object (minimal on-disk ruleset through the real __init__), deep-copied for every in-memory
    ruleset, so that attributes a constructor may set up (caches, counters) exist and start empty."""
    if PcfgGrammar not in _TEMPLATES:
        tmpl = None
        try:
            import contextlib
            import io
            import shutil
            import tempfile
            d = tempfile.mkdtemp(prefix='pcfgmc-tmpl-', dir='/dev/shm' if os.path.isdir('/dev/shm') else None)
            try:
                write_ruleset(d, {'D': {1: [('1', 1.0)]}, 'grammar': [('D1', 1.0)], 'prince': [('D1', 1.0)]})
                sink = io.StringIO()
                with contextlib.redirect_stdout(sink), contextlib.redirect_stderr(sink):
                    tmpl = PcfgGrammar('t', d, '4.7', None)
                # format probe: a second small ruleset through the real loader, compared with what mem_grammar builds for the same content.  The
                # in-memory rulesets of C01 / C02 / C04 / C08 / C16 are only inputs the code can meet as long as the two agree
                probe = {'A': {2: [('ab', .5), ('cd', .5), ('ef', .25)]}, 'C': {2: [('LL', .75), ('UL', .25)]}, 'D': {1: [('1', .5), ('2', .25)]},
                         'grammar': [('A2D1', .75), ('D1', .25)], 'prince': [('D1', 1.0)]}
                d2 = tempfile.mkdtemp(prefix='pcfgmc-tmpl-', dir='/dev/shm' if os.path.isdir('/dev/shm') else None)
                try:
                    write_ruleset(d2, probe)
                    with contextlib.redirect_stdout(sink), contextlib.redirect_stderr(sink):
                        real = PcfgGrammar('t', d2, '4.7', None, skip_brute=True)
                finally:
                    shutil.rmtree(d2, ignore_errors=True)
                types, base = ref_loaded(probe, True, False)
                want_g = {t: [{'values': list(v), 'prob': p} for p, v in groups] for t, groups in types.items()}
                want_b = [{'prob': p, 'replacements': list(r)} for p, r in base]
                got_g = {t: real.grammar.get(t) for t in want_g if want_g[t]}
                # (the LAYOUT is compared, not the content: what the loader makes of the values and flags is the subject of the on-disk layers, and a
                # loader that reads a wrong value must not turn the in-memory checks into harness errors)

                def shape(x):
                    if isinstance(x, dict):
                        return ('dict', tuple(sorted((k if isinstance(k, str) and not k[:1].isupper() else type(k).__name__, shape(v)) for k, v in x.items())))
                    if isinstance(x, (list, tuple)):
                        return (type(x).__name__, tuple(sorted(set(shape(v) for v in x))))
                    return type(x).__name__
                same_types = isinstance(real.grammar, dict) and all(isinstance(k, str) for k in real.grammar) and 'D1' in real.grammar
                if not same_types or shape({t: v for t, v in real.grammar.items() if t in want_g and v}) != shape({t: v for t, v in want_g.items() if v}) or shape(real.base) != shape(want_b):
                    _TEMPLATES[PcfgGrammar] = RuntimeError('harness: the format of a loaded grammar changed (loader gives grammar %r / base %r; the in-memory rulesets are built as %r / %r)'
                                                           % ({k: got_g[k] for k in list(got_g)[:2]}, real.base[:2], {k: want_g[k] for k in list(want_g)[:2]}, want_b[:2]))
                    return _TEMPLATES[PcfgGrammar]
            finally:
                shutil.rmtree(d, ignore_errors=True)
        except Exception:
            tmpl = None
        _TEMPLATES[PcfgGrammar] = tmpl
    return _TEMPLATES[PcfgGrammar]


def mem_grammar(PcfgGrammar, types, base):
    """types: {name: [prob, ...] or [(prob, [values])...]}; base: [(prob, [names...]), ...]"""
    tmpl = _template(PcfgGrammar)
    if isinstance(tmpl, RuntimeError):
        raise tmpl
    if tmpl is not None:
        import copy
        g = copy.deepcopy(tmpl)
    else:
        g = object.__new__(PcfgGrammar)
    gr = {}
    for name, groups in types.items():
        lst = []
        for i, grp in enumerate(groups):
            if isinstance(grp, (tuple, list)):
                p, vals = grp
            else:
                p, vals = grp, ['%s%d' % (name, i)]
            lst.append({'values': list(vals), 'prob': p})
        gr[name] = lst
    g.grammar = gr
    g.base = [{'prob': p, 'replacements': list(r)} for p, r in base]
    g.debug = False
    g.should_exit = False
    g.omen_exit = False
    g.omen_guess_num = 0
    g.save_file = None
    return g


def well_formed(types, base):
    for name, groups in types.items():
        ps = [g[0] if isinstance(g, (tuple, list)) else g for g in groups]
        assert all(a > b for a, b in zip(ps, ps[1:])), ('groups not strictly descending', name, ps)
        assert len(ps) >= 1
    for p, reps in base:
        assert all(r in types for r in reps)


def family_single(values, max_groups, base_probs, patterns=PATTERNS):
    """Single-structure rulesets: every pattern x every assignment of descending lists to its types."""
    lists = desc_lists(values, max_groups)
    for pat in patterns:
        names = sorted(set(pat))
        for combo in itertools.product(lists, repeat=len(names)):
            types = dict(zip(names, combo))
            for bp in base_probs:
                yield types, [(bp, list(pat))]


def family_multi(values, max_groups, base_probs, nstruct, max_vars=2, type_names='AB'):
    """Rulesets with nstruct base structures (duplicates allowed) over shared types."""
    lists = desc_lists(values, max_groups)
    structs = []
    for k in range(1, max_vars + 1):
        structs.extend(list(s) for s in itertools.product(type_names, repeat=k))
    for combo in itertools.product(lists, repeat=len(type_names)):
        types = dict(zip(type_names, combo))
        for ss in itertools.product(structs, repeat=nstruct):
            used = set(itertools.chain.from_iterable(ss))
            # types not referenced by any structure make rulesets that differ only in dead data
            if any(t not in used and types[t] != lists[0] for t in type_names):
                continue
            for bps in itertools.product(base_probs, repeat=nstruct):
                yield types, [(bp, list(s)) for bp, s in zip(bps, ss)]


def exact_product(factors):
    f = Fraction(1)
    for x in factors:
        f *= Fraction(x)
    return f


def float_product(base_prob, probs):
    p = base_prob
    for x in probs:
        p *= x
    return p


def within_slack(reported, exact, nfactors):
    """|reported - exact| <= (2n+2) ulp relative + n denormal steps (DESIGN 4.3)."""
    rel = Fraction(2 * nfactors + 2, 2 ** 53)
    ab = Fraction(nfactors, 2 ** 1074)
    return abs(Fraction(reported) - exact) <= exact * rel + ab


# ----------------------------------------------------------------------------------------
# On-disk rulesets (format transcribed from the trainer's writers, independent of repo code)
# ----------------------------------------------------------------------------------------
import codecs
import json
import os

_LEN_SECTIONS = [('A', 'BASE_A', 'Alpha'), ('D', 'BASE_D', 'Digits'), ('O', 'BASE_O', 'Other'),
                 ('K', 'BASE_K', 'Keyboard'), ('C', 'CAPITALIZATION', 'Capitalization')]
_FLAT_SECTIONS = [('X', 'BASE_X', 'Context'), ('Y', 'BASE_Y', 'Years')]

DEFAULT_OMEN = {
    # hand-written tiny OMEN model (ngram 2): levels have 2-8 strings
    'ngram': 2,
    'alphabet': ['a', 'b'],
    'ip': {'a': 0, 'b': 1},
    'ep': {'a': 0, 'b': 0},
    'cp': {'aa': 0, 'ab': 1, 'ba': 0, 'bb': 2},
    'ln': [10, 0, 1],        # line i = level of total length i+1
}


def fmt_prob(p):
    return p if isinstance(p, str) else repr(float(p))


def write_list(path, rows, encoding='utf-8'):
    with codecs.open(path, 'w', encoding=encoding) as f:
        for v, p in rows:
            f.write(str(v) + '\t' + fmt_prob(p) + '\n')


def write_ruleset(root, spec):
    """spec keys: encoding, uuid, version, A/D/O/K/C: {length: [(value, prob)]}, X/Y: [(value, prob)],
    grammar: [(structure, prob)], prince: [...], omen: model dict (see DEFAULT_OMEN) plus
    optional 'keyspace' {level: n} and 'omen_prob' [(level, prob)]."""
    enc = spec.get('encoding', 'utf-8')
    os.makedirs(root, exist_ok=True)
    for d in ('Masks', 'Prince', 'Grammar', 'Alpha', 'Capitalization', 'Digits', 'Years', 'Other',
              'Context', 'Keyboard', 'Websites', 'Emails', 'Omen'):
        os.makedirs(os.path.join(root, d), exist_ok=True)
    lines = []
    lines += ['[TRAINING_PROGRAM_DETAILS]', 'contact = x', 'author = x', 'program = PCFG Trainer',
              'version = ' + spec.get('version', '4.7'), '']
    lines += ['[TRAINING_DATASET_DETAILS]', 'comments = ', 'filename = verif.txt', 'encoding = ' + enc,
              'uuid = ' + spec.get('uuid', '00000000-0000-4000-8000-000000000001'),
              'number_of_passwords_in_set = 1', 'number_of_encoding_errors = 0', '']
    # section by section what the trainer writes (keys, values and their order as in a trained ruleset; the comments are shortened)
    lines += ['[START]', 'name = Base Structure', 'function = Transparent', 'directory = Grammar', 'comments = Base structures',
              'file_type = Flat', 'inject_type = Wordlist', 'is_terminal = False',
              'replacements = ' + json.dumps([{'Config_id': 'BASE_' + k, 'Transition_id': k} for k in 'ADOKXY']),
              'filenames = ["grammar.txt"]', '']
    for key, section, folder in _LEN_SECTIONS:
        files = spec.get(key, {})
        names = []
        for length, rows in files.items():
            fn = '%s.txt' % length
            names.append(fn)
            write_list(os.path.join(root, folder, fn), rows, enc)
        lines += ['[%s]' % section, 'name = %s' % key, 'function = %s' % {'A': 'Shadow', 'C': 'Capitalization'}.get(key, 'Copy'), 'directory = %s' % folder,
                  'comments = %s' % folder, 'file_type = Length', 'inject_type = %s' % ('Wordlist' if key == 'A' else 'Copy'),
                  'is_terminal = %s' % (key != 'A')]
        if key == 'A':
            lines += ['replacements = [{"Config_id": "CAPITALIZATION", "Transition_id": "Capitalization"}]']
        lines += ['filenames = ' + json.dumps(names), '']
    for key, section, folder in _FLAT_SECTIONS:
        write_list(os.path.join(root, folder, '1.txt'), spec.get(key, []), enc)
        lines += ['[%s]' % section, 'name = %s' % key, 'function = Copy', 'directory = %s' % folder, 'comments = %s' % folder, 'file_type = Flat',
                  'inject_type = Copy', 'is_terminal = True', 'filenames = ["1.txt"]', '']
    with open(os.path.join(root, 'config.ini'), 'w') as f:
        f.write('\n'.join(lines) + '\n')
    write_list(os.path.join(root, 'Grammar', 'grammar.txt'), spec.get('grammar', []), 'ascii')
    write_list(os.path.join(root, 'Grammar', 'raw_grammar.txt'), spec.get('grammar', []), 'ascii')
    write_list(os.path.join(root, 'Prince', 'grammar.txt'), spec.get('prince', []), 'ascii')
    write_list(os.path.join(root, 'Emails', 'email_providers.txt'), spec.get('E', []), enc)
    write_list(os.path.join(root, 'Websites', 'website_hosts.txt'), spec.get('W', []), enc)
    write_list(os.path.join(root, 'Websites', 'website_prefixes.txt'), [], enc)
    write_omen(os.path.join(root, 'Omen'), spec.get('omen', DEFAULT_OMEN), enc)
    return root


def write_omen(d, m, enc='utf-8'):
    os.makedirs(d, exist_ok=True)
    with open(os.path.join(d, 'config.txt'), 'w') as f:
        f.write('[training_settings]\nngram = %d\nencoding = %s\n\n' % (m['ngram'], enc))
    with codecs.open(os.path.join(d, 'alphabet.txt'), 'w', encoding=enc) as f:
        for a in m['alphabet']:
            f.write(a + '\n')
    for name in ('ip', 'ep', 'cp'):
        with codecs.open(os.path.join(d, name.upper() + '.level'), 'w', encoding=enc) as f:
            for k, lvl in m.get(name, {}).items():
                f.write('%d\t%s\n' % (lvl, k))
    with open(os.path.join(d, 'LN.level'), 'w') as f:
        for lvl in m['ln']:
            f.write('%d\n' % lvl)
    ks = m.get('keyspace')
    if ks is None:
        ks = {L: len(omen_level_set(m, L)) for L in range(1, m.get('top_level', 10) + 1)}
        ks = {L: n for L, n in ks.items() if n}
    # like the trainer: keyspace and per-level counts in the ruleset's encoding, LN.level and config.txt in the platform's
    with codecs.open(os.path.join(d, 'omen_keyspace.txt'), 'w', encoding=enc) as f:
        for L, n in sorted(ks.items()):
            f.write('%d\t%d\n' % (L, n))
    op = m.get('omen_prob')
    if op is None:
        # strictly descending so that every level is its own group
        op = [(L, 0.5 ** (i + 2)) for i, L in enumerate(sorted(ks))]
    write_list(os.path.join(d, 'pcfg_omen_prob.txt'), op, enc)
    with codecs.open(os.path.join(d, 'omen_pws_per_level.txt'), 'w', encoding=enc) as f:
        for L in sorted(ks):
            f.write('%d\t1\n' % L)


# ----------------------------------------------------------------------------------------
# OMEN reference semantics (plain DFS, DESIGN 4.2)
# ----------------------------------------------------------------------------------------

def omen_strings(m, max_level=10):
    """Yield (string, level) for every string the model can generate, by plain DFS.
    m: ngram, ip {prefix: level}, cp {ngram: level}, ln [level of total length i+1]."""
    n = m['ngram']
    out = []
    succ = {}
    for k, lvl in m.get('cp', {}).items():
        succ.setdefault(k[:-1], []).append((k[-1:], lvl))
    for length_idx, ln_level in enumerate(m['ln']):
        total_len = length_idx + 1
        if total_len < n:
            continue
        if ln_level > max_level:
            continue
        ncp = total_len - (n - 1)
        for ip, ip_level in m['ip'].items():
            if len(ip) != n - 1:
                continue
            stack = [(ip, ip_level + ln_level, ncp)]
            while stack:
                s, lvl, rem = stack.pop()
                if rem == 0:
                    out.append((s, lvl))
                    continue
                ctx = s[len(s) - (n - 1):] if n > 1 else ''
                for ch, cl in succ.get(ctx, ()):
                    stack.append((s + ch, lvl + cl, rem - 1))
    return out


def omen_level_set(m, L):
    return sorted(s for s, lvl in omen_strings(m) if lvl == L)


# ----------------------------------------------------------------------------------------
# Reference reading of a spec: what a loader must see (independent of repo code)
# ----------------------------------------------------------------------------------------
import re

_TOK = re.compile(r'([A-Za-z])(\d*)')


def parse_structure(s):
    return [a + b for a, b in _TOK.findall(s)]


def group_rows(rows):
    """Maximal runs of equal probability -> [(prob, [values])]"""
    out = []
    for v, p in rows:
        p = float(p)
        if out and out[-1][0] == p:
            out[-1][1].append(str(v))
        else:
            out.append((p, [str(v)]))
    return out


def ref_loaded(spec, skip_brute=False, skip_case=False, folder='Grammar'):
    """(types, base) the guesser must hold after loading `spec` under the flags."""
    types = {}
    for key in 'ADOK':
        for length, rows in spec.get(key, {}).items():
            types['%s%s' % (key, length)] = group_rows(rows)
    for length, rows in spec.get('C', {}).items():
        if skip_case:
            types['C%s' % length] = [(1.0, ['L' * int(length)])]
        else:
            types['C%s' % length] = group_rows(rows)
    types['X1'] = group_rows(spec.get('X', []))
    types['Y1'] = group_rows(spec.get('Y', []))
    for key in 'EW':          # e-mail providers / website hosts: plain replacement lists without a length (PRINCE structures, hand-written grammars)
        if spec.get(key):
            types[key] = group_rows(spec[key])
    om = spec.get('omen', DEFAULT_OMEN)
    op = om.get('omen_prob')
    if op is None:
        ks = om.get('keyspace')
        if ks is None:
            ks = {L: len(omen_level_set(om, L)) for L in range(1, om.get('top_level', 10) + 1)}
            ks = {L: n for L, n in ks.items() if n}
        op = [(L, 0.5 ** (i + 2)) for i, L in enumerate(sorted(ks))]
    types['M'] = group_rows(op)
    lines = spec.get('grammar' if folder == 'Grammar' else 'prince', [])
    total = 1.0
    if skip_brute:
        for s, p in lines:
            if s == 'M':
                total = total - float(p)
                break
    base = []
    for s, p in lines:
        reps = parse_structure(s)
        if skip_brute and 'M' in reps:
            continue
        full = []
        for r in reps:
            full.append(r)
            if r[0] == 'A':
                full.append('C' + r[1:])
        base.append((float(p) / total, full))
    return types, base


def expand_pt(types, pt, omen=None):
    """Reference expansion of a pre-terminal into its guesses (list, with multiplicity)."""
    outs = ['']
    for t, i in pt:
        vals = types[t][i][1]
        if t[0] == 'M':
            strings = []
            for v in vals:
                strings.extend(omen_level_set(omen, int(v)))
            return strings
        if t[0] == 'C':
            new = []
            for g in outs:
                for mask in vals:
                    n = len(mask)
                    head, tail = g[:len(g) - n], g[len(g) - n:]
                    new.append(head + ''.join(c.upper() if m != 'L' else c for c, m in zip(tail, mask)))
            outs = new
        else:
            outs = [g + v for g in outs for v in vals]
    return outs
