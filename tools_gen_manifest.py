#!/venv/bin/python
"""Regenerates MANIFEST.json from the property modules that exist (keeps it valid at all times)."""
import importlib, json, os, sys
sys.path.insert(0, os.path.dirname(os.path.abspath(__file__)))
PROPS = ['C%02d' % i for i in range(1, 21)]
NOTES = json.load(open(os.path.join(os.path.dirname(os.path.abspath(__file__)), 'manifest_notes.json')))
checks = []
na = []
for pid in PROPS:
    try:
        mod = importlib.import_module('pcfgmc.props.' + pid.lower())
    except ImportError:
        na.append({'property_id': pid, 'reason': NOTES.get(pid, {}).get('na', 'check not built yet (planned, see DESIGN.md section 5); not a limitation of the technique')})
        continue
    n = NOTES[pid]
    checks.append({
        'property_id': pid,
        'quick_cmd': './check %s --tier quick' % pid,
        'thorough_cmd': './check %s --tier thorough' % pid,
        'evidence_file': 'evidence/%s.json' % pid,
        'replay_cmd_template': './check %s --replay {path}' % pid,
        'engine': 'pcfgmc',
        'level_claimed': {'category': mod.LEVEL, 'text': n['text'], 'design_ref': 'DESIGN.md section 5 (%s)' % pid},
        'level_note': n['note'],
        'technique': n['technique'],
    })
m = {
    'version': 1,
    'setup_cmd': '/venv/bin/python -B -c "import sys; sys.path.insert(0, \'.\'); import pcfgmc.runner, pcfgmc.rulesets, pcfgmc.tree; print(\'pcfgmc ok\')"',
    'hooks': {
        'guard': 'PCFG_VERIF_HOOKS',
        'enable': 'no source hooks exist: every seam is reached by replacing module/instance attributes from the harness; the guard variable is unused',
        'baseline_off_cmd': 'cd /repo && /venv/bin/python -m pytest -ra -q -p no:cacheprovider --timeout=900 --continue-on-collection-errors',
        'source_commits': [],
        'add_only': True,
    },
    'engines': [{'name': 'pcfgmc', 'path': 'pcfgmc/', 'serves_properties': [c['property_id'] for c in checks],
                 'kind_free_text': 'hand-written explicit-state / bounded-exhaustive / schedule explorer that executes the real pcfg_cracker code (stdlib Python, 16 worker processes)'}],
    'checks': checks,
    'not_applicable': na,
    'notes': 'All checks run the implementation in /repo (override PCFG_VERIF_REPO) and never write into it. VERIF_SEED only rotates samples and shard order; the explored case set is identical for every seed.',
}
json.dump(m, open(os.path.join(os.path.dirname(os.path.abspath(__file__)), 'MANIFEST.json'), 'w'), indent=1)
print('checks:', [c['property_id'] for c in checks], 'na:', [x['property_id'] for x in na])
